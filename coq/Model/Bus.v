(* bus.rs: memory map, alignment checks, little-endian instruction fetch,
   display window + dirty flag, NVRAM, pass-throughs. *)
From Dmd Require Import Model.Bits Model.Fifo Model.Mem Model.Mouse Model.Duart.

Definition NVRAM_SIZE := 8192.
Definition RAM_SIZE := 1048576.          (* Dmd::new -> Bus::new(0x100000) *)
Definition VIDEO_LEN := 102400.          (* 0x19000 *)

Record bus := mkBus {
  rom : mem; duart_ : duart; mouse_ : mouse; vid : mem; bbram : mem; ram : mem; dirty : bool }.

Definition bus_new (now : Z) : bus :=
  mkBus (mem_new 0 131072 true) (duart_new now) mouse_new
        (mem_new 5242880 2 false) (mem_new 6291456 8192 false) (mem_new 7340032 RAM_SIZE false) false.

Definition with_rom b v := mkBus v (duart_ b) (mouse_ b) (vid b) (bbram b) (ram b) (dirty b).
Definition with_duart b v := mkBus (rom b) v (mouse_ b) (vid b) (bbram b) (ram b) (dirty b).
Definition with_mouse b v := mkBus (rom b) (duart_ b) v (vid b) (bbram b) (ram b) (dirty b).
Definition with_vid b v := mkBus (rom b) (duart_ b) (mouse_ b) v (bbram b) (ram b) (dirty b).
Definition with_bbram b v := mkBus (rom b) (duart_ b) (mouse_ b) (vid b) v (ram b) (dirty b).
Definition with_ram b v := mkBus (rom b) (duart_ b) (mouse_ b) (vid b) (bbram b) v (dirty b).
Definition with_dirty b v := mkBus (rom b) (duart_ b) (mouse_ b) (vid b) (bbram b) (ram b) v.

Inductive device := DRom | DDuart | DMouse | DVid | DBbram | DRam.

(* get_device: the range tests in source order (cross-checked with Gen/GenMemMap.v) *)
Definition get_device (a : Z) : option device :=
  if a <? 131072 then Some DRom
  else if (2097152 <=? a) && (a <? 2097216) then Some DDuart
  else if (4194304 <=? a) && (a <? 4194308) then Some DMouse
  else if (5242880 <=? a) && (a <? 5242882) then Some DVid
  else if (6291456 <=? a) && (a <? 6299648) then Some DBbram
  else if (7340032 <=? a) && (a <? 8388608) then Some DRam
  else None.

Definition dev_mem (b : bus) (d : device) : mem :=
  match d with DRom => rom b | DVid => vid b | DBbram => bbram b | _ => ram b end.
Definition set_dev_mem (b : bus) (d : device) (m : mem) : bus :=
  match d with DRom => with_rom b m | DVid => with_vid b m | DBbram => with_bbram b m | _ => with_ram b m end.

Definition lift_r {A} (b : bus) (r : rres A) : res bus A :=
  match r with ROk a => Ok a b | RErr e => Err (EBus e) b | RPanic => Panic end.

(* Device::read_byte / read_half / read_word on the chosen device *)
Definition dev_read_byte (d : device) (a : Z) (b : bus) : res bus Z :=
  match d with
  | DDuart => match duart_read_byte (a - 2097152) (duart_ b) with
              (* Duart::read_byte returns u8 *)
              | ROk (v, du) => Ok (w8 v) (with_duart b du) | RErr e => Err (EBus e) b | RPanic => Panic end
  | DMouse => Err (EBus BRead) b
  | _ => lift_r b (mem_read_byte (dev_mem b d) a)
  end.

Definition dev_read_half (d : device) (a : Z) (b : bus) : res bus Z :=
  match d with
  | DDuart => dev_read_byte DDuart (a + 2) b
  | DMouse => lift_r b (mouse_read_half (mouse_ b) a)
  | _ => lift_r b (mem_read_half (dev_mem b d) a)
  end.

Definition dev_read_word (d : device) (a : Z) (b : bus) : res bus Z :=
  match d with
  | DDuart => dev_read_byte DDuart (a + 3) b
  | DMouse => Err (EBus BRead) b
  | _ => lift_r b (mem_read_word (dev_mem b d) a)
  end.

Definition dev_write_mem (d : device) (b : bus) (r : rres mem) : res bus unit :=
  match r with ROk m => Ok tt (set_dev_mem b d m) | RErr e => Err (EBus e) b | RPanic => Panic end.

Definition dev_write_byte (d : device) (a v : Z) (b : bus) : res bus unit :=
  match d with
  | DDuart => Ok tt (with_duart b (duart_write_byte (a - 2097152) v (duart_ b)))
  | DMouse => Err (EBus BWrite) b
  | _ => dev_write_mem d b (mem_write_byte (dev_mem b d) a v)
  end.

Definition dev_write_half (d : device) (a v : Z) (b : bus) : res bus unit :=
  match d with
  | DDuart => dev_write_byte DDuart (a + 2) (w8 v) b
  | DMouse => Err (EBus BWrite) b
  | _ => dev_write_mem d b (mem_write_half (dev_mem b d) a v)
  end.

Definition dev_write_word (d : device) (a v : Z) (b : bus) : res bus unit :=
  match d with
  | DDuart => dev_write_byte DDuart (a + 3) (w8 v) b
  | DMouse => Err (EBus BWrite) b
  | _ => dev_write_mem d b (mem_write_word (dev_mem b d) a v)
  end.

(* display window *)
Definition video_start (b : bus) : Z := (mget (vid b) 0 * 256 + mget (vid b) 1) * 4.
Definition is_video_ram (b : bus) (a : Z) : bool :=
  (7340032 <=? a) && (a <? 8388608)
  && (video_start b <=? a - 7340032) && (a - 7340032 <? video_start b + VIDEO_LEN).

Definition with_dev {A} (a : Z) (b : bus) (k : device -> res bus A) : res bus A :=
  match get_device a with Some d => k d | None => Err (EBus BNoDevice) b end.

Definition bus_read_byte (a : Z) (b : bus) : res bus Z :=
  with_dev a b (fun d => dev_read_byte d a b).
Definition bus_read_half (a : Z) (b : bus) : res bus Z :=
  if negb (Z.land a 1 =? 0) then Err (EBus BAlignment) b
  else with_dev a b (fun d => dev_read_half d a b).
Definition bus_read_word (a : Z) (b : bus) : res bus Z :=
  if negb (Z.land a 3 =? 0) then Err (EBus BAlignment) b
  else with_dev a b (fun d => dev_read_word d a b).

(* instruction-stream fetch: little-endian, all bytes from the device of the first *)
Definition bus_read_op_half (a : Z) (b : bus) : res bus Z :=
  with_dev a b (fun d =>
    let* (b0, s) := dev_read_byte d a b in
    let* (b1, s) := dev_read_byte d (a + 1) s in
    Ok (b0 + b1 * 256) s).
Definition bus_read_op_word (a : Z) (b : bus) : res bus Z :=
  with_dev a b (fun d =>
    let* (b0, s) := dev_read_byte d a b in
    let* (b1, s) := dev_read_byte d (a + 1) s in
    let* (b2, s) := dev_read_byte d (a + 2) s in
    let* (b3, s) := dev_read_byte d (a + 3) s in
    Ok (b0 + b1 * 256 + b2 * 65536 + b3 * 16777216) s).

Definition mark_dirty (a : Z) (b : bus) : bus :=
  if is_video_ram b a then with_dirty b true else b.

Definition bus_write_byte (a v : Z) (b : bus) : res bus unit :=
  let b1 := mark_dirty a b in
  with_dev a b1 (fun d => dev_write_byte d a (w8 v) b1).
Definition bus_write_half (a v : Z) (b : bus) : res bus unit :=
  if negb (Z.land a 1 =? 0) then Err (EBus BAlignment) b
  else let b1 := mark_dirty a b in
       with_dev a b1 (fun d => dev_write_half d a (w16 v) b1).
Definition bus_write_word (a v : Z) (b : bus) : res bus unit :=
  if negb (Z.land a 3 =? 0) then Err (EBus BAlignment) b
  else let b1 := mark_dirty a b in
       with_dev a b1 (fun d => dev_write_word d a (w32 v) b1).

(* Bus::load (host only): Mem::load on a memory; DUART and mouse are unimplemented!() *)
Definition bus_load (a : Z) (data : list Z) (b : bus) : res bus unit :=
  with_dev a b (fun d =>
    match d with
    | DDuart | DMouse => Panic
    | _ => dev_write_mem d b (mem_load (dev_mem b d) a data)
    end).

(* video_ram(): clears the flag and slices RAM; the slice panics when it runs past the vector *)
Definition bus_video_ram (b : bus) : res bus (list Z) :=
  let start := video_start b in
  if start + VIDEO_LEN >? msize (ram b) then Panic
  else Ok (mem_slice (ram b) start (Z.to_nat VIDEO_LEN)) (with_dirty b false).

Definition bus_service (now : Z) (b : bus) : bus := with_duart b (duart_service now (duart_ b)).
Definition bus_get_interrupts (now : Z) (b : bus) : option Z * bus :=
  let (o, d) := get_interrupt now (duart_ b) in (o, with_duart b d).

Definition bus_mouse_move (x y : Z) (b : bus) : bus := with_mouse b (mkMouse (w16 x) (w16 y)).
Definition bus_mouse_down (bt : Z) (b : bus) : bus := with_duart b (mouse_down (duart_ b) (w8 bt)).
Definition bus_mouse_up (bt : Z) (b : bus) : bus := with_duart b (mouse_up (duart_ b) (w8 bt)).
Definition bus_rs232_rx (c : Z) (b : bus) : bus := with_duart b (duart_rs232_rx (duart_ b) (w8 c)).
Definition bus_keyboard_rx (c : Z) (b : bus) : bus := with_duart b (duart_keyboard_rx (duart_ b) (w8 c)).
Definition bus_rs232_tx (b : bus) : option Z * bus :=
  let (o, d) := duart_rs232_tx (duart_ b) in (o, with_duart b d).
Definition bus_keyboard_tx (b : bus) : option Z * bus :=
  let (o, d) := duart_keyboard_tx (duart_ b) in (o, with_duart b d).

Definition bus_get_nvram (b : bus) : list Z := mem_slice (bbram b) 0 (Z.to_nat NVRAM_SIZE).

(* set_nvram: bbram[i] = b for the first NVRAM_SIZE bytes (Index on Mem: raw vector index) *)
Fixpoint set_nvram_from (m : mem) (i : Z) (l : list Z) (n : nat) : mem :=
  match n, l with
  | S k, x :: t => set_nvram_from (mset m i (w8 x)) (i + 1) t k
  | _, _ => m
  end.
Definition bus_set_nvram (l : list Z) (b : bus) : bus :=
  with_bbram b (set_nvram_from (bbram b) 0 l (Z.to_nat NVRAM_SIZE)).
