(* Data types shared by the generated tables and the CPU model. *)
From Dmd Require Import Model.Bits.

Inductive dtype := DNone | DByte | DHalf | DWord | DSByte | DUHalf | DUWord.
Inductive optype := OLit | OSrc | ODest | ONone.

Inductive addrmode :=
| MNone | MAbsolute | MAbsoluteDeferred | MByteDisp | MByteDispDef | MHalfDisp | MHalfDispDef
| MWordDisp | MWordDispDef | MApShort | MFpShort | MByteImm | MHalfImm | MWordImm
| MPosLit | MNegLit | MRegister | MRegDeferred | MExpanded.

(* one row of BYTE_MNEMONICS / HALFWORD_MNEMONICS *)
Record mnemonic := mkMn { mn_opcode : Z; mn_dtype : dtype; mn_name : nat; mn_ops : list optype }.

Record operand := mkOperand {
  osize : Z; omode : addrmode; otype : dtype; oetype : option dtype; oreg : option Z; oemb : Z }.

Definition operand_clear : operand := mkOperand 0 MNone DNone None None 0.

Record instr := mkInstr { iopcode : Z; ilen : Z; op0 : operand; op1 : operand; op2 : operand; op3 : operand }.

Definition get_op (i : instr) (k : Z) : operand :=
  if k =? 0 then op0 i else if k =? 1 then op1 i else if k =? 2 then op2 i else op3 i.

Definition set_op (i : instr) (k : Z) (o : operand) : instr :=
  if k =? 0 then mkInstr (iopcode i) (ilen i) o (op1 i) (op2 i) (op3 i)
  else if k =? 1 then mkInstr (iopcode i) (ilen i) (op0 i) o (op2 i) (op3 i)
  else if k =? 2 then mkInstr (iopcode i) (ilen i) (op0 i) (op1 i) o (op3 i)
  else mkInstr (iopcode i) (ilen i) (op0 i) (op1 i) (op2 i) o.

(* Operand::data_type(): the expanded type wins *)
Definition data_type (o : operand) : dtype :=
  match oetype o with Some t => t | None => otype o end.

Definition dtype_eqb (a b : dtype) : bool :=
  match a, b with
  | DNone, DNone | DByte, DByte | DHalf, DHalf | DWord, DWord
  | DSByte, DSByte | DUHalf, DUHalf | DUWord, DUWord => true
  | _, _ => false end.
