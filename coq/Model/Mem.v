(* mem.rs: one byte vector per memory device, big-endian half/word, read-only guard, load. *)
From Coq Require Import FSets.FMapPositive.
From Dmd Require Import Model.Bits.

Inductive rres (A : Type) : Type := ROk (a : A) | RErr (e : buserr) | RPanic.
Arguments ROk {A} a.
Arguments RErr {A} e.
Arguments RPanic {A}.

Record mem := mkMem { mbase : Z; msize : Z; mro : bool; mcells : PositiveMap.t Z }.

Definition mem_new (base size : Z) (ro : bool) : mem := mkMem base size ro (PositiveMap.empty Z).

(* vec![0; len]: absent cells read as 0.  Offsets are >= 0. *)
Definition mget (m : mem) (off : Z) : Z :=
  match PositiveMap.find (Z.to_pos (off + 1)) (mcells m) with Some v => v | None => 0 end.

Definition mset (m : mem) (off v : Z) : mem :=
  mkMem (mbase m) (msize m) (mro m) (PositiveMap.add (Z.to_pos (off + 1)) v (mcells m)).

Definition mend (m : mem) : Z := mbase m + msize m.

(* `self.ram[offset]` panics when offset is outside the vector; offset is
   address.wrapping_sub(start), so an address below the base is a panic too. *)
Definition in_vec (m : mem) (off : Z) : bool := (0 <=? off) && (off <? msize m).

Definition mem_read_byte (m : mem) (addr : Z) : rres Z :=
  let off := addr - mbase m in
  if addr >=? mend m then RErr BRange
  else if in_vec m off then ROk (mget m off) else RPanic.

Definition mem_read_half (m : mem) (addr : Z) : rres Z :=
  let off := addr - mbase m in
  if addr + 1 >=? mend m then RErr BRange
  else if in_vec m off && in_vec m (off + 1)
       then ROk (mget m off * 256 + mget m (off + 1)) else RPanic.

Definition mem_read_word (m : mem) (addr : Z) : rres Z :=
  let off := addr - mbase m in
  if addr + 3 >=? mend m then RErr BRange
  else if in_vec m off && in_vec m (off + 3)
       then ROk (mget m off * 16777216 + mget m (off + 1) * 65536
                 + mget m (off + 2) * 256 + mget m (off + 3))
       else RPanic.

Definition mem_write_byte (m : mem) (addr v : Z) : rres mem :=
  if mro m then RErr BWrite else
  let off := addr - mbase m in
  if addr >=? mend m then RErr BRange
  else if in_vec m off then ROk (mset m off (w8 v)) else RPanic.

Definition mem_write_half (m : mem) (addr v : Z) : rres mem :=
  if mro m then RErr BWrite else
  let off := addr - mbase m in
  if addr + 1 >=? mend m then RErr BRange
  else if in_vec m off && in_vec m (off + 1)
       then ROk (mset (mset m off (w8 (v / 256))) (off + 1) (w8 v)) else RPanic.

Definition mem_write_word (m : mem) (addr v : Z) : rres mem :=
  if mro m then RErr BWrite else
  let off := addr - mbase m in
  if addr + 3 >=? mend m then RErr BRange
  else if in_vec m off && in_vec m (off + 3)
       then ROk (mset (mset (mset (mset m off (w8 (v / 16777216)))
                                  (off + 1) (w8 (v / 65536)))
                            (off + 2) (w8 (v / 256)))
                      (off + 3) (w8 v))
       else RPanic.

(* load: bypasses the read-only guard; Err(Range) only when the program is
   longer than the device; each store indexes the vector (may panic). *)
Fixpoint mem_store_list (m : mem) (off : Z) (l : list Z) : option mem :=
  match l with
  | [] => Some m
  | b :: t => if in_vec m off then mem_store_list (mset m off (w8 b)) (off + 1) t else None
  end.

Definition mem_load (m : mem) (addr : Z) (prog : list Z) : rres mem :=
  let off := addr - mbase m in
  if Z.of_nat (length prog) >? msize m then RErr BRange
  else match mem_store_list m off prog with Some m' => ROk m' | None => RPanic end.

(* as_slice(range): bytes off .. off+n-1, as a list *)
Fixpoint mem_slice (m : mem) (off : Z) (n : nat) : list Z :=
  match n with O => [] | S k => mget m off :: mem_slice m (off + 1) k end.
