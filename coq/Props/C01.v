(* C01  Stock firmware boots and works as a terminal, end to end -- PARTIAL (evidence level "other").
   The universal claim is about 192 KiB of binary firmware without source; no theorem about the firmware is
   claimed.  What is proved here is about the device layer the firmware runs on, for ANY guest program:
   mouse events cannot touch anything the two guarantees depend on except through the interrupt request they
   raise.  The serial-path guarantees for any guest are C08 (keyboard / RS-232 receive: exactly once, in order, loss
   only flagged), C09 (transmit: exactly once, in order), C14 (status / interrupts truthful) and C17 (pacing).
   The firmware-dependent conjuncts are EVALUATED by running both images on the implementation under the virtual
   clock (and, in lock step, on the extracted model) on sampled configurations and schedules. *)
From Coq Require Import ZArith List Bool.
From Dmd Require Import Model.Bits Model.Types Model.Mem Model.Mouse Model.Duart Model.Bus.
From Dmd Require Import Proofs.SysProofs.
Open Scope Z_scope.

(* a pointer move changes the two mouse registers and nothing else in the machine's bus *)
Theorem C01_mouse_move_touches_only_mouse_registers :
  forall x y b,
    let b' := bus_mouse_move x y b in
    rom b' = rom b /\ duart_ b' = duart_ b /\ vid b' = vid b /\ bbram b' = bbram b /\ ram b' = ram b /\ dirty b' = dirty b
    /\ mouse_ b' = mkMouse (w16 x) (w16 y).
Proof. exact mouse_move_frame. Qed.
Print Assumptions C01_mouse_move_touches_only_mouse_registers.

(* a button event (any button number) leaves both serial channels -- queues, FIFOs, shift and holding registers,
   status, mode, pacing deadlines -- RAM, ROM, NVRAM, the display register and the dirty flag exactly as they
   were; only the input-port, input-port-change, interrupt-status and request registers move *)
Theorem C01_button_events_touch_only_input_port_and_request :
  forall bt b,
    (let b' := bus_mouse_down bt b in
     rom b' = rom b /\ mouse_ b' = mouse_ b /\ vid b' = vid b /\ bbram b' = bbram b /\ ram b' = ram b /\ dirty b' = dirty b
     /\ duart_rest (duart_ b') = duart_rest (duart_ b))
    /\ (let b' := bus_mouse_up bt b in
     rom b' = rom b /\ mouse_ b' = mouse_ b /\ vid b' = vid b /\ bbram b' = bbram b /\ ram b' = ram b /\ dirty b' = dirty b
     /\ duart_rest (duart_ b') = duart_rest (duart_ b)).
Proof. exact mouse_button_frame. Qed.
Print Assumptions C01_button_events_touch_only_input_port_and_request.
