(* C11  Memory is big-endian, width-coherent, alignment-checked; ROM is immutable. *)
From Coq Require Import ZArith List.
From Dmd Require Import Model.Bits Model.Mem Model.Bus Proofs.MemProofs Proofs.BusProofs.
Open Scope Z_scope.

(* a halfword / word read is the big-endian composition of the byte reads of the same addresses *)
Theorem C11_half_is_big_endian_bytes :
  forall m a v, mem_read_half m a = ROk v ->
    mem_read_byte m a = ROk (byte_at m a) /\ mem_read_byte m (a + 1) = ROk (byte_at m (a + 1))
    /\ v = byte_at m a * 256 + byte_at m (a + 1).
Proof. exact read_half_compose. Qed.
Print Assumptions C11_half_is_big_endian_bytes.

Theorem C11_word_is_big_endian_bytes :
  forall m a v, mem_read_word m a = ROk v ->
    mem_read_byte m a = ROk (byte_at m a) /\ mem_read_byte m (a + 1) = ROk (byte_at m (a + 1))
    /\ mem_read_byte m (a + 2) = ROk (byte_at m (a + 2)) /\ mem_read_byte m (a + 3) = ROk (byte_at m (a + 3))
    /\ v = byte_at m a * 16777216 + byte_at m (a + 1) * 65536 + byte_at m (a + 2) * 256 + byte_at m (a + 3).
Proof. exact read_word_compose. Qed.
Print Assumptions C11_word_is_big_endian_bytes.

(* a write of any width changes exactly the addressed bytes (big-endian), nothing else, and keeps the geometry *)
Theorem C11_write_changes_exactly_addressed_bytes :
  (forall m a v m', mem_write_byte m a v = ROk m' ->
     mro m = false /\ mbase m <= a < mend m /\ mbase m' = mbase m /\ msize m' = msize m /\ mro m' = mro m
     /\ byte_at m' a = w8 v /\ (forall x, mbase m <= x -> x <> a -> byte_at m' x = byte_at m x))
  /\ (forall m a v m', mem_write_half m a v = ROk m' ->
     mro m = false /\ mbase m <= a /\ a + 1 < mend m /\ mbase m' = mbase m /\ msize m' = msize m /\ mro m' = mro m
     /\ byte_at m' a = w8 (v / 256) /\ byte_at m' (a + 1) = w8 v
     /\ (forall x, mbase m <= x -> x <> a -> x <> a + 1 -> byte_at m' x = byte_at m x))
  /\ (forall m a v m', mem_write_word m a v = ROk m' ->
     mro m = false /\ mbase m <= a /\ a + 3 < mend m /\ mbase m' = mbase m /\ msize m' = msize m /\ mro m' = mro m
     /\ byte_at m' a = w8 (v / 16777216) /\ byte_at m' (a + 1) = w8 (v / 65536)
     /\ byte_at m' (a + 2) = w8 (v / 256) /\ byte_at m' (a + 3) = w8 v
     /\ (forall x, mbase m <= x -> (x < a \/ a + 3 < x) -> byte_at m' x = byte_at m x)).
Proof. exact (conj write_byte_spec (conj write_half_spec write_word_spec)). Qed.
Print Assumptions C11_write_changes_exactly_addressed_bytes.

(* and is read back unchanged at the same width *)
Theorem C11_write_read_back :
  (forall m a v m', mem_write_byte m a v = ROk m' -> mem_read_byte m' a = ROk (w8 v))
  /\ (forall m a v m', mem_write_half m a v = ROk m' -> mem_read_half m' a = ROk (w16 v))
  /\ (forall m a v m', mem_write_word m a v = ROk m' -> mem_read_word m' a = ROk (w32 v)).
Proof. exact (conj write_read_byte (conj write_read_half write_read_word)). Qed.
Print Assumptions C11_write_read_back.

(* unaligned halfword / word accesses fault and modify nothing *)
Theorem C11_unaligned_faults_unchanged :
  forall a v b,
    (Z.land a 1 <> 0 -> bus_read_half a b = Err (EBus BAlignment) b /\ bus_write_half a v b = Err (EBus BAlignment) b)
    /\ (Z.land a 3 <> 0 -> bus_read_word a b = Err (EBus BAlignment) b /\ bus_write_word a v b = Err (EBus BAlignment) b).
Proof.
  intros a v b; split; intros H.
  - exact (conj (unaligned_read_half a b H) (unaligned_write_half a v b H)).
  - exact (conj (unaligned_read_word a b H) (unaligned_write_word a v b H)).
Qed.
Print Assumptions C11_unaligned_faults_unchanged.

(* no guest write of any width, at any address, changes the ROM *)
Theorem C11_guest_writes_never_change_rom :
  forall a v b, bus_wf b ->
    res_rom_same b (bus_write_byte a v b) /\ res_rom_same b (bus_write_half a v b) /\ res_rom_same b (bus_write_word a v b).
Proof.
  intros a v b W.
  exact (conj (write_byte_keeps_rom a v b W) (conj (write_half_keeps_rom a v b W) (write_word_keeps_rom a v b W))).
Qed.
Print Assumptions C11_guest_writes_never_change_rom.

(* a write routed to the ROM is refused with a write fault *)
Theorem C11_rom_write_rejected :
  forall a v b, bus_wf b -> get_device a = Some DRom ->
    bus_write_byte a v b = Err (EBus BWrite) b
    /\ (bus_write_half a v b = Err (EBus BWrite) b \/ bus_write_half a v b = Err (EBus BAlignment) b)
    /\ (bus_write_word a v b = Err (EBus BWrite) b \/ bus_write_word a v b = Err (EBus BAlignment) b).
Proof.
  intros a v b W H.
  exact (conj (rom_write_byte_rejected a v b W H)
              (conj (rom_write_half_rejected a v b W H) (rom_write_word_rejected a v b W H))).
Qed.
Print Assumptions C11_rom_write_rejected.

(* the instruction stream is fetched from the bytes data accesses see (little-endian composed) *)
Theorem C11_fetch_sees_data_bytes :
  forall a b d, get_device a = Some d -> is_memdev d = true ->
    bus_read_byte a b = lift_r b (mem_read_byte (dev_mem b d) a)
    /\ (forall v b', bus_read_op_half a b = Ok v b' ->
          b' = b /\ exists x0 x1, mem_read_byte (dev_mem b d) a = ROk x0
                                  /\ mem_read_byte (dev_mem b d) (a + 1) = ROk x1 /\ v = x0 + x1 * 256)
    /\ (forall v b', bus_read_op_word a b = Ok v b' ->
          b' = b /\ exists x0 x1 x2 x3,
            mem_read_byte (dev_mem b d) a = ROk x0 /\ mem_read_byte (dev_mem b d) (a + 1) = ROk x1
            /\ mem_read_byte (dev_mem b d) (a + 2) = ROk x2 /\ mem_read_byte (dev_mem b d) (a + 3) = ROk x3
            /\ v = x0 + x1 * 256 + x2 * 65536 + x3 * 16777216).
Proof.
  intros a b d H M. split; [exact (data_read_byte_mem a b d H M)|]. split.
  - intros v b'. exact (fetch_half_sees_bytes a b d v b' H M).
  - intros v b'. exact (fetch_word_sees_bytes a b d v b' H M).
Qed.
Print Assumptions C11_fetch_sees_data_bytes.
