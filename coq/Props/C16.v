(* C16  Reset reloads firmware and CPU state; NVRAM and RAM persist.
   Parametric in the four firmware arrays (any byte lists of the lengths the source declares). *)
From Coq Require Import ZArith List Bool.
From Dmd Require Import Model.Bits Model.Types Model.Mem Model.Bus Model.Cpu Model.Dmd.
From Dmd Require Import Gen.GenRom Proofs.BusProofs Proofs.ResetProofs Proofs.GenCheck.
Open Scope Z_scope.

(* the model's device geometry, PSW fields, register numbers and image lengths are the ones in the source *)
Theorem C16_model_constants_are_source_constants :
  (forall now, geom (rom (bus_new now)) = GenConsts.g_dev_rom /\ geom (bbram (bus_new now)) = GenConsts.g_dev_bbram
               /\ geom (ram (bus_new now)) = GenConsts.g_dev_ram)
  /\ (R_PSW, R_SP, R_PCBP, R_PC) = (GenConsts.g_R_PSW, GenConsts.g_R_SP, GenConsts.g_R_PCBP, GenConsts.g_R_PC)
  /\ (F_I, F_ISC) = (GenConsts.g_F_I, GenConsts.g_F_ISC)
  /\ g_LO_ROM_V1_LEN = 32768 /\ g_HI_ROM_V1_LEN = 32768 /\ g_LO_ROM_V2_LEN = 65536 /\ g_HI_ROM_V2_LEN = 65536
  /\ g_reset_shape_ok = true.
Proof.
  split; [intros now; pose proof (device_geometry_match now); tauto|].
  repeat split.
Qed.
Print Assumptions C16_model_constants_are_source_constants.

(* reset(version) from ANY prior state: whether Cpu::reset then succeeds or faults, the start of the ROM range
   (64 KiB for version 1, 128 KiB for any other number) holds exactly low half ++ high half of the selected image,
   the rest of ROM is as before, and RAM, NVRAM and the display register are untouched *)
Theorem C16_reset_loads_image :
  forall LO1 HI1 LO2 HI2,
    Z.of_nat (length LO1) = g_LO_ROM_V1_LEN -> Z.of_nat (length HI1) = g_HI_ROM_V1_LEN ->
    Z.of_nat (length LO2) = g_LO_ROM_V2_LEN -> Z.of_nat (length HI2) = g_HI_ROM_V2_LEN ->
    forall v m, bus_wf (mbus m) ->
      match dmd_reset LO1 HI1 LO2 HI2 v m with
      | Ok _ m' | Err _ m' =>
        (forall o, 0 <= o < image_len v -> mget (rom (mbus m')) o = image_at (sel_lo LO1 LO2 v) (sel_hi HI1 HI2 v) o)
        /\ (forall o, image_len v <= o -> mget (rom (mbus m')) o = mget (rom (mbus m)) o)
        /\ ram (mbus m') = ram (mbus m) /\ bbram (mbus m') = bbram (mbus m) /\ vid (mbus m') = vid (mbus m)
      | _ => True
      end.
Proof. exact dmd_reset_image. Qed.
Print Assumptions C16_reset_loads_image.

(* the loads themselves never fail or panic: reset = Cpu::reset on a well-formed bus holding the image *)
Theorem C16_reset_is_load_then_cpu_reset :
  forall LO1 HI1 LO2 HI2,
    Z.of_nat (length LO1) = g_LO_ROM_V1_LEN -> Z.of_nat (length HI1) = g_HI_ROM_V1_LEN ->
    Z.of_nat (length LO2) = g_LO_ROM_V2_LEN -> Z.of_nat (length HI2) = g_HI_ROM_V2_LEN ->
    forall v m, bus_wf (mbus m) ->
      exists b2, dmd_reset LO1 HI1 LO2 HI2 v m = cpu_reset (with_bus m b2)
        /\ bus_wf b2 /\ same_but_rom (mbus m) b2
        /\ (forall o, 0 <= o < image_len v -> mget (rom b2) o = image_at (sel_lo LO1 LO2 v) (sel_hi HI1 HI2 v) o)
        /\ (forall o, image_len v <= o -> mget (rom b2) o = mget (rom (mbus m)) o).
Proof. exact dmd_reset_loaded. Qed.
Print Assumptions C16_reset_is_load_then_cpu_reset.

(* Cpu::reset: control-block pointer from the word at 0x80; PSW, PC, SP from that block; if the I bit is set it is
   cleared and the pointer moves past the initial context (+12); ISC := 3; nothing else changes *)
Theorem C16_reset_cpu_state :
  forall m m', cpu_reset m = Ok tt m' ->
    exists pcbp psw pc sp b1 b2 b3,
      bus_read_word 128 (mbus m) = Ok pcbp b1 /\ bus_read_word pcbp b1 = Ok psw b2
      /\ bus_read_word (pcbp + 4) b2 = Ok pc b3 /\ bus_read_word (pcbp + 8) b3 = Ok sp (mbus m')
      /\ R m' R_PC = pc /\ R m' R_SP = sp
      /\ R m' R_PCBP = (if bset psw F_I then add32 pcbp 12 else pcbp)
      /\ R m' R_PSW = Z.lor (clr32 (if bset psw F_I then clr32 psw F_I else psw) F_ISC) 24
      /\ (forall i, 0 <= i <= 10 -> R m' i = R m i) /\ R m' R_ISP = R m R_ISP.
Proof. exact cpu_reset_spec. Qed.
Print Assumptions C16_reset_cpu_state.

(* Cpu::reset only reads: whatever it returns, ROM, display register, NVRAM, RAM and the dirty flag are unchanged *)
Theorem C16_cpu_reset_reads_only :
  forall m, match cpu_reset m with Ok _ m' | Err _ m' => mems_same (mbus m) (mbus m') | _ => True end.
Proof. exact cpu_reset_mems. Qed.
Print Assumptions C16_cpu_reset_reads_only.

(* repeated reset with the same version: the ROM is the same image again (all 128 KiB) *)
Theorem C16_reset_idempotent :
  forall LO1 HI1 LO2 HI2,
    Z.of_nat (length LO1) = g_LO_ROM_V1_LEN -> Z.of_nat (length HI1) = g_HI_ROM_V1_LEN ->
    Z.of_nat (length LO2) = g_LO_ROM_V2_LEN -> Z.of_nat (length HI2) = g_HI_ROM_V2_LEN ->
    forall v m m1 m2, bus_wf (mbus m) -> bus_wf (mbus m1) ->
      dmd_reset LO1 HI1 LO2 HI2 v m = Ok tt m1 -> dmd_reset LO1 HI1 LO2 HI2 v m1 = Ok tt m2 ->
      forall o, 0 <= o -> mget (rom (mbus m2)) o = mget (rom (mbus m1)) o.
Proof. exact dmd_reset_image_idempotent. Qed.
Print Assumptions C16_reset_idempotent.

(* the image the host snapshots is byte for byte what the guest reads at 0x600000 + i, in every well-formed
   state (hence at every instruction boundary), and a guest read there changes nothing *)
Theorem C16_nvram_host_guest_agree :
  forall b i, bus_wf b -> 0 <= i < 8192 ->
    bus_read_byte (6291456 + i) b = Ok (nth (Z.to_nat i) (bus_get_nvram b) 0) b.
Proof. exact nvram_host_guest_agree. Qed.
Print Assumptions C16_nvram_host_guest_agree.

(* an image the host restores is what the guest then reads; ROM, RAM, display register and DUART are untouched *)
Theorem C16_nvram_restore_visible :
  forall l b i, bus_wf b -> 0 <= i < 8192 -> i < Z.of_nat (length l) ->
    let b' := bus_set_nvram l b in
    bus_wf b' /\ bus_read_byte (6291456 + i) b' = Ok (w8 (nth (Z.to_nat i) l 0)) b'
    /\ rom b' = rom b /\ ram b' = ram b /\ vid b' = vid b /\ duart_ b' = duart_ b.
Proof. exact nvram_restore_visible. Qed.
Print Assumptions C16_nvram_restore_visible.

(* the hypotheses are satisfiable: the power-on bus is well formed *)
Example C16_nonvacuous : bus_wf (bus_new 0).
Proof. exact (bus_new_wf 0). Qed.
