(* C19  The C interface keeps its return-code contract under concurrent callers.
   The exported functions are modelled as the labelled transition system capi_step: one call = one atomic
   transition of the process-global machine.  That atomicity is what the mutex provides; that every wrapper is a
   single critical section which takes the lock once and calls no other wrapper is read from the source on every
   run (Gen/GenCapi.v).  Not modelled: std::sync::Mutex itself and the memory model (trusted). *)
From Coq Require Import ZArith List Bool.
From Dmd Require Import Model.Bits Model.Types Model.Mem Model.Duart Model.Bus Model.Decode Model.Cpu Model.Dmd.
From Dmd Require Import Gen.GenCapi Gen.GenConsts Proofs.BusProofs Proofs.GenCheck Proofs.CapiProofs.
Open Scope Z_scope.

Theorem C19_return_codes :
  forall LO1 HI1 LO2 HI2 now c g,
    let r := snd (capi_step LO1 HI1 LO2 HI2 now c g) in
    match c with
    | CVideoRam => crc r = 0 \/ crc r = -1 \/ crc r = 1 \/ crc r = 99
    | CVideoDirty => crc r = 0 \/ crc r = 1
    | CRs232Tx | CKeyboardTx => crc r = 0 \/ crc r = 2 \/ crc r = 1
    | _ => crc r = 0 \/ crc r = 1 \/ crc r = 99
    end.
Proof. exact capi_return_codes. Qed.
Print Assumptions C19_return_codes.

Theorem C19_return_code_constants_are_source_constants : (SUCCESS, ERROR, BUSY) = (g_SUCCESS, g_ERROR, g_BUSY).
Proof. exact return_codes_match. Qed.
Print Assumptions C19_return_code_constants_are_source_constants.

(* the two transmit polls return 2 exactly when nothing is pending *)
Theorem C19_busy_iff_nothing_pending :
  forall LO1 HI1 LO2 HI2 now m,
    (crc (snd (capi_step LO1 HI1 LO2 HI2 now CRs232Tx (GLive m))) = 2 <-> txq (pa (duart_ (mbus m))) = [])
    /\ (crc (snd (capi_step LO1 HI1 LO2 HI2 now CKeyboardTx (GLive m))) = 2 <-> txq (pb (duart_ (mbus m))) = []).
Proof. exact poll_busy_iff_empty. Qed.
Print Assumptions C19_busy_iff_nothing_pending.

(* a successful poll hands out the oldest pending byte and removes exactly that one: a byte can be handed to one
   poller only, whichever thread polls *)
Theorem C19_poll_hands_out_each_byte_once :
  forall LO1 HI1 LO2 HI2 now m c t,
    (txq (pa (duart_ (mbus m))) = c :: t ->
       exists m', capi_step LO1 HI1 LO2 HI2 now CRs232Tx (GLive m) = (GLive m', mkCres 0 (CoVal c))
                  /\ txq (pa (duart_ (mbus m'))) = t
                  /\ txq (pb (duart_ (mbus m'))) = txq (pb (duart_ (mbus m))) /\ mregs m' = mregs m)
    /\ (txq (pb (duart_ (mbus m))) = c :: t ->
       exists m', capi_step LO1 HI1 LO2 HI2 now CKeyboardTx (GLive m) = (GLive m', mkCres 0 (CoVal c))
                  /\ txq (pb (duart_ (mbus m'))) = t
                  /\ txq (pa (duart_ (mbus m'))) = txq (pa (duart_ (mbus m))) /\ mregs m' = mregs m).
Proof. exact poll_pops_oldest. Qed.
Print Assumptions C19_poll_hands_out_each_byte_once.

(* output parameters are written on success and left untouched otherwise *)
Theorem C19_outparams_written_iff_success :
  forall LO1 HI1 LO2 HI2 now c g,
    let r := snd (capi_step LO1 HI1 LO2 HI2 now c g) in
    has_out c = true -> c <> CVideoRam -> (crc r = 0 <-> cout_ r <> CoNone).
Proof. exact capi_outparams. Qed.
Print Assumptions C19_outparams_written_iff_success.

Theorem C19_nvram_roundtrip :
  forall LO1 HI1 LO2 HI2 now m img,
    bus_wf (mbus m) -> Z.of_nat (length img) = 8192 -> (forall b, In b img -> 0 <= b < 256) ->
    exists m', capi_step LO1 HI1 LO2 HI2 now (CSetNvram img) (GLive m) = (GLive m', mkCres 0 CoNone)
      /\ capi_step LO1 HI1 LO2 HI2 now CGetNvram (GLive m') = (GLive m', mkCres 0 (CoBytes img)).
Proof. exact nvram_roundtrip. Qed.
Print Assumptions C19_nvram_roundtrip.

(* every interleaving: for ANY admission order of the threads' calls (no stepping in between), the receive queues
   end as the old queues followed by the injected bytes in admission order -- none lost, none duplicated ... *)
Theorem C19_inputs_enter_in_admission_order :
  forall LO1 HI1 LO2 HI2 now cs m, no_steps cs ->
    exists m', fst (run_calls LO1 HI1 LO2 HI2 now cs (GLive m)) = GLive m'
      /\ rxq (pb (duart_ (mbus m'))) = rxq (pb (duart_ (mbus m))) ++ kb_inputs cs
      /\ rxq (pa (duart_ (mbus m'))) = rxq (pa (duart_ (mbus m))) ++ rs_inputs cs.
Proof. exact inputs_enter_in_admission_order. Qed.
Print Assumptions C19_inputs_enter_in_admission_order.

(* ... and any merge of two threads' call lists keeps each thread's own bytes in that thread's order *)
Theorem C19_interleaving_keeps_thread_order :
  forall l1 l2 l : list ccall, merge l1 l2 l ->
    subseq (kb_inputs l1) (kb_inputs l) /\ subseq (kb_inputs l2) (kb_inputs l)
    /\ subseq (rs_inputs l1) (rs_inputs l) /\ subseq (rs_inputs l2) (rs_inputs l).
Proof.
  intros l1 l2 l M.
  destruct (merge_keeps_thread_order (fun c => match c with CKeyboardRx k => [w8 k] | _ => [] end) l1 l2 l M).
  destruct (merge_keeps_thread_order (fun c => match c with CRs232Rx k => [w8 k] | _ => [] end) l1 l2 l M).
  auto.
Qed.
Print Assumptions C19_interleaving_keeps_thread_order.

(* each wrapper takes the lock once and calls no other wrapper: no call can deadlock on its own lock *)
Theorem C19_wrappers_lock_once_and_do_not_nest :
  forallb (fun e => match snd e with CS locks nested _ => (locks =? 1)%nat && negb nested end) g_capi = true
  /\ g_capi_count = 19%nat /\ g_capi_poll_shape_ok = true.
Proof. exact wrappers_lock_once_and_do_not_nest. Qed.
Print Assumptions C19_wrappers_lock_once_and_do_not_nest.

(* after a panic under the lock every later call reports failure and writes nothing *)
Theorem C19_poisoned_machine_reports_failure :
  forall LO1 HI1 LO2 HI2 now c,
    fst (capi_step LO1 HI1 LO2 HI2 now c GPoisoned) = GPoisoned
    /\ cout_ (snd (capi_step LO1 HI1 LO2 HI2 now c GPoisoned)) = CoNone.
Proof. exact poisoned_stays. Qed.
Print Assumptions C19_poisoned_machine_reports_failure.
