(* C12  Guest-controlled data can never crash the host.
   In the model every place where the Rust code can panic (index out of range, unwrap, unimplemented!, integer
   division, clone_from_slice length) is an explicit Panic outcome, every loop runs on explicit fuel with an
   OutOfFuel outcome, and everything else is a total Gallina function.  The theorems say that Panic / OutOfFuel are
   never produced.  That the model has ALL the panic sites of the code is validated by the catch_unwind differential
   runs (hostile streams), not proved. *)
From Coq Require Import ZArith List Bool.
From Dmd Require Import Model.Bits Model.Types Model.Mem Model.Bus Model.Decode Model.Cpu.
From Dmd Require Import Proofs.BusProofs Proofs.VideoProofs Proofs.DecodeProofs Proofs.SafeBus Proofs.SafeCpu Proofs.SafeStep Proofs.LoopTerm.
Open Scope Z_scope.

(* every bus access the host API or the CPU can request -- any address, any width, reads, writes, instruction
   fetches -- returns a value or an error on a bus with the documented geometry; it never panics *)
Theorem C12_bus_access_never_panics :
  forall b a v, bus_wf b -> 0 <= a ->
    not_crash (bus_read_byte a b) /\ not_crash (bus_read_half a b) /\ not_crash (bus_read_word a b)
    /\ not_crash (bus_write_byte a v b) /\ not_crash (bus_write_half a v b) /\ not_crash (bus_write_word a v b).
Proof.
  intros b a v W Ha.
  split; [exact (bus_read_byte_nocrash b W a Ha)|]. split; [exact (bus_read_half_nocrash b W a Ha)|].
  split; [exact (bus_read_word_nocrash b W a Ha)|]. split; [exact (bus_write_byte_nocrash b W a v)|].
  split; [exact (bus_write_half_nocrash b W a v) | exact (bus_write_word_nocrash b W a v)].
Qed.
Print Assumptions C12_bus_access_never_panics.

(* the decoder on ANY byte source whose fetches do not crash: an instruction of at most 26 bytes or an error;
   the 32-byte instruction buffer is never overrun and the prefix recursion is bounded *)
Theorem C12_decoder_never_panics :
  forall St f1 f2 f4 (I : St -> Prop),
    fetch_safe St I f1 -> fetch_safe St I f2 -> fetch_safe St I f4 ->
    (forall off s, I s -> 0 <= off -> match f1 off s with Ok v _ => 0 <= v < 256 | _ => True end) ->
    forall s, I s -> dec_good St I (decode_instruction St f1 f2 f4 s).
Proof. exact decode_instruction_good. Qed.
Print Assumptions C12_decoder_never_panics.

Theorem C12_decoder_never_panics_on_bytes :
  forall bs, bytes_ok bs ->
    match decode_bytes bs with Ok i _ => 1 <= ilen i <= 26 | Err _ _ => True | _ => False end.
Proof. exact decode_bytes_total. Qed.
Print Assumptions C12_decoder_never_panics_on_bytes.

(* the frame fetch never slices past RAM, whatever the guest wrote to the display-start register *)
Theorem C12_video_fetch_never_panics :
  forall b, bus_wf b -> vid_ok b ->
    bus_video_ram b = Ok (mem_slice (ram b) (video_start b) (Z.to_nat 102400)) (with_dirty b false).
Proof. exact frame_is_window. Qed.
Print Assumptions C12_video_fetch_never_panics.

(* THE step interface: from every well-formed machine state -- ANY register contents, ANY memory contents, ANY
   DUART / mouse state, at ANY time -- one instruction through step_with_error completes or returns an error
   value.  It never panics; the machine is well formed again afterwards (so the statement applies to the next
   step), and no ROM byte changes.  Well formed (mwf): the four memories have their documented geometry and hold
   byte values, the mouse coordinates are 16-bit, the 16 registers are 32-bit values -- which is what the Rust types
   (Vec<u8>, u16, u32) guarantee of every state the implementation can be in.
   OutOfFuel stands for "one of the three loops (MOVBLW, STREND, the block-move list of a context switch) ran for
   more than 1,048,600 iterations" or "the decoder recursed past its bound": neither can happen.  The loops read
   the bus at consecutive addresses from R0 and every mapped region (the largest is the 1 MiB of RAM) is followed by
   unmapped addresses, where the read reports a bus error and the loop ends (Proofs/LoopTerm.v) -- so every
   instruction is executed in a bounded number of iterations whatever the registers and memory hold. *)
Theorem C12_step_with_error_never_panics :
  forall now m, mwf m ->
    match step_with_error now m with
    | Ok _ m' | Err _ m' => mwf m' /\ rom (mbus m') = rom (mbus m)
    | Panic => False
    | OutOfFuel => False
    end.
Proof. exact step_with_error_never_panics. Qed.
Print Assumptions C12_step_with_error_never_panics.

(* any number of steps, continuing after every error *)
Theorem C12_no_step_of_any_run_panics :
  forall nows m, mwf m ->
    match run_steps_err nows m with
    | TGood m' => mwf m' /\ rom (mbus m') = rom (mbus m)
    | TFuel => False
    | TPanic => False
    end.
Proof. exact all_steps_never_panic. Qed.
Print Assumptions C12_no_step_of_any_run_panics.

(* the power-on machine is well formed: the theorems apply to every state reachable from it by steps *)
Theorem C12_power_on_state_is_well_formed : forall now, mwf (mach_new now).
Proof. exact mwf_new. Qed.
Print Assumptions C12_power_on_state_is_well_formed.

(* every dispatch arm, for every instruction the decoder can produce (32-bit constants) *)
Theorem C12_every_dispatch_arm_is_safe :
  forall ir m0 m, instr_ok ir -> st m0 m -> safe m0 (fun _ => True) (exec ir m).
Proof. intros ir m0 m I S. now apply exec_safe. Qed.
Print Assumptions C12_every_dispatch_arm_is_safe.

Theorem C12_interrupt_entry_is_safe :
  forall m0 v m, st m0 m -> 0 <= v -> safe m0 (fun _ => True) (on_interrupt v m).
Proof. intros. now apply safe_on_interrupt. Qed.
Print Assumptions C12_interrupt_entry_is_safe.

(* the data-driven loops end within the bound: a run of successful bus accesses at consecutive addresses
   (stride 1 to 4) from any 32-bit address is at most 1 MiB (+3) long, which is less than the iteration bound *)
Theorem C12_mapped_runs_are_short :
  forall d a b n, 1 <= d <= 4 -> 0 <= a < 4294967296 -> chain d a b n -> d * n <= 1048576 + 3.
Proof. exact chain_bound. Qed.
Print Assumptions C12_mapped_runs_are_short.

Theorem C12_loops_end_within_bound :
  forall m0 m, st m0 m ->
    safe m0 (fun _ => True) (movblw_loop m) /\ safe m0 (fun _ => True) (strend_loop m)
    /\ safe m0 (fun _ => True) (cs3_loop m).
Proof.
  intros m0 m S. split; [apply safe_movblw_loop; auto | split; [apply safe_strend_loop; auto | apply safe_cs3_loop; auto]].
Qed.
Print Assumptions C12_loops_end_within_bound.

(* the constructs of /repo/src that can panic in a release build -- unwrap / expect / panic! / unimplemented! /
   unreachable! / assert!, indexing and slicing, division and remainder -- counted per non-test function by the translator
   on every run (Gen/GenPanic.v), are exactly the ones Spec/PanicSites.v lists and explains the model's account of: a
   new potential panic site anywhere in the crate makes this theorem fail until it has been accounted for *)
From Dmd Require Import Gen.GenPanic Spec.PanicSites.
Theorem C12_panic_census_is_the_modelled_one :
  g_explicit_panics = pinned_explicit_panics /\ g_index_sites = pinned_index_sites
  /\ g_division_sites = pinned_division_sites.
Proof. repeat split; reflexivity. Qed.
Print Assumptions C12_panic_census_is_the_modelled_one.
