(* C12  Guest-controlled data can never crash the host.
   In the model every place where the Rust code can panic (index out of range, unwrap, unimplemented!, integer
   division, clone_from_slice length) is an explicit Panic outcome, every loop runs on explicit fuel with an
   OutOfFuel outcome, and everything else is a total Gallina function.  The theorems say that Panic / OutOfFuel are
   never produced.  That the model has ALL the panic sites of the code is validated by the catch_unwind differential
   runs (hostile streams), not proved. *)
From Coq Require Import ZArith List Bool.
From Dmd Require Import Model.Bits Model.Types Model.Mem Model.Bus Model.Decode Model.Cpu.
From Dmd Require Import Proofs.BusProofs Proofs.VideoProofs Proofs.DecodeProofs.
Open Scope Z_scope.

(* every bus access the host API or the CPU can request -- any address, any width, reads, writes, instruction
   fetches -- returns a value or an error on a bus with the documented geometry; it never panics *)
Theorem C12_bus_access_never_panics :
  forall b a v, bus_wf b -> 0 <= a ->
    not_crash (bus_read_byte a b) /\ not_crash (bus_read_half a b) /\ not_crash (bus_read_word a b)
    /\ not_crash (bus_write_byte a v b) /\ not_crash (bus_write_half a v b) /\ not_crash (bus_write_word a v b).
Proof.
  intros b a v W Ha.
  split; [exact (bus_read_byte_nocrash b W a Ha)|]. split; [exact (bus_read_half_nocrash b W a Ha)|].
  split; [exact (bus_read_word_nocrash b W a Ha)|]. split; [exact (bus_write_byte_nocrash b W a v)|].
  split; [exact (bus_write_half_nocrash b W a v) | exact (bus_write_word_nocrash b W a v)].
Qed.
Print Assumptions C12_bus_access_never_panics.

(* the decoder on ANY byte source whose fetches do not crash: an instruction of at most 26 bytes or an error;
   the 32-byte instruction buffer is never overrun and the prefix recursion is bounded *)
Theorem C12_decoder_never_panics :
  forall St f1 f2 f4 (I : St -> Prop),
    fetch_safe St I f1 -> fetch_safe St I f2 -> fetch_safe St I f4 ->
    (forall off s, I s -> 0 <= off -> match f1 off s with Ok v _ => 0 <= v < 256 | _ => True end) ->
    forall s, I s -> dec_good St I (decode_instruction St f1 f2 f4 s).
Proof. exact decode_instruction_good. Qed.
Print Assumptions C12_decoder_never_panics.

Theorem C12_decoder_never_panics_on_bytes :
  forall bs, bytes_ok bs ->
    match decode_bytes bs with Ok i _ => 1 <= ilen i <= 26 | Err _ _ => True | _ => False end.
Proof. exact decode_bytes_total. Qed.
Print Assumptions C12_decoder_never_panics_on_bytes.

(* the frame fetch never slices past RAM, whatever the guest wrote to the display-start register *)
Theorem C12_video_fetch_never_panics :
  forall b, bus_wf b -> vid_ok b ->
    bus_video_ram b = Ok (mem_slice (ram b) (video_start b) (Z.to_nat 102400)) (with_dirty b false).
Proof. exact frame_is_window. Qed.
Print Assumptions C12_video_fetch_never_panics.
