(* C06  Stack and procedure-linkage instructions are exact inverses.
   Every theorem is about `exec` of the model on arbitrary machine states; hypotheses say only that the words
   the instruction is defined to touch lie word-aligned in RAM (otherwise the instruction faults: C13), that the
   bus has its documented geometry, and -- where a stored register is read back -- that registers hold 32-bit
   values.  RAMB = 0x700000, RAME = 0x800000; ramb m a is the RAM byte at address a; ldw the big-endian word. *)
From Coq Require Import ZArith List Bool.
From Dmd Require Import Model.Bits Model.Types Model.Mem Model.Bus Model.Decode Model.Cpu.
From Dmd Require Import Proofs.BusProofs Proofs.MachKit Proofs.LinkageProofs.
Open Scope Z_scope.

(* PUSHW: the word goes to [SP], SP moves up by exactly 4, flags from the value *)
Theorem C06_pushw_effect :
  forall ir m v, iopcode ir = 160 -> bus_wf (mbus m) -> in_ram_w (R m R_SP) -> read_op ir 0 m = Ok v m ->
    exec ir m = Ok (ilen ir) (nz_clear_cv v (op0 ir) (setR (stw m (R m R_SP) v) R_SP (add32 (R m R_SP) 4))).
Proof. exact pushw_effect. Qed.
Print Assumptions C06_pushw_effect.

(* PUSHW v ; POPW %r  returns the pushed word, restores SP, changes no other register (but the flags) and no
   memory except the dead word at the old SP *)
Theorem C06_pushw_popw_inverse :
  forall ir1 ir2 m v r,
    iopcode ir1 = 160 -> iopcode ir2 = 32 -> bus_wf (mbus m) ->
    in_ram_w (R m R_SP) -> R m R_SP + 4 < 4294967296 -> read_op ir1 0 m = Ok v m ->
    omode (op0 ir2) = MRegister -> oreg (op0 ir2) = Some r -> 0 <= r <= 10 ->
    exists m1 m2,
      exec ir1 m = Ok (ilen ir1) m1 /\ exec ir2 m1 = Ok (ilen ir2) m2
      /\ R m2 r = w32 v /\ R m2 R_SP = R m R_SP
      /\ (forall i, 0 <= i <= 15 -> i <> r -> i <> 11 -> i <> 12 -> R m2 i = R m i)
      /\ (forall a, RAMB <= a -> (a < R m R_SP \/ R m R_SP + 4 <= a) -> ramb m2 a = ramb m a).
Proof. exact pushw_popw. Qed.
Print Assumptions C06_pushw_popw_inverse.

(* subroutine entry (JSB / BSBB / BSBH all push the return address with stack_push: C05_unconditional_transfers)
   followed by RSB: control returns to the pushed address, SP is back, no register and no other memory changed *)
Theorem C06_entry_rsb_inverse :
  forall ir2 m ret,
    iopcode ir2 = 120 -> bus_wf (mbus m) -> in_ram_w (R m R_SP) -> R m R_SP + 4 < 4294967296 ->
    let m1 := pushed m ret in
    exists m2, exec ir2 m1 = Ok 0 m2 /\ R m2 R_PC = w32 ret /\ R m2 R_SP = R m R_SP
      /\ (forall i, 0 <= i <= 14 -> i <> 12 -> R m2 i = R m i)
      /\ (forall a, RAMB <= a -> (a < R m R_SP \/ R m R_SP + 4 <= a) -> ramb m2 a = ramb m a).
Proof. exact entry_then_rsb. Qed.
Print Assumptions C06_entry_rsb_inverse.

Theorem C06_entry_pushes_return_address :
  forall ir m, bus_wf (mbus m) -> in_ram_w (R m R_SP) ->
    stack_push (w32 (R m R_PC + ilen ir)) m = Ok tt (pushed m (w32 (R m R_PC + ilen ir))).
Proof. exact bsb_push. Qed.
Print Assumptions C06_entry_pushes_return_address.

(* CALL: old AP at [SP+4], return address at [SP], SP + 8, AP := address of the first operand, PC := target *)
Theorem C06_call_effect :
  forall ir m a b,
    iopcode ir = 44 -> bus_wf (mbus m) -> in_ram_w (R m R_SP) -> in_ram_w (R m R_SP + 4) ->
    effective_address ir 0 m = Ok a m -> effective_address ir 1 m = Ok b m ->
    exec ir m = Ok 0 (called m a b (w32 (R m R_PC + ilen ir))).
Proof. exact call_effect. Qed.
Print Assumptions C06_call_effect.

(* CALL ... RET: returns to the byte after the CALL with AP restored and SP = the CALL's first operand address;
   r0-r8 and FP untouched, no memory outside the two linkage words written *)
Theorem C06_call_ret_inverse :
  forall ir2 m a b ret,
    iopcode ir2 = 8 -> bus_wf (mbus m) -> in_ram_w (R m R_SP) -> in_ram_w (R m R_SP + 4) ->
    0 <= R m R_AP < 4294967296 ->
    let m1 := called m a b ret in
    exists m2, exec ir2 m1 = Ok 0 m2 /\ R m2 R_PC = w32 ret /\ R m2 R_AP = R m R_AP /\ R m2 R_SP = a
      /\ (forall i, 0 <= i <= 9 -> R m2 i = R m i)
      /\ (forall x, RAMB <= x -> (x < R m R_SP \/ R m R_SP + 8 <= x) -> ramb m2 x = ramb m x).
Proof. exact call_then_ret. Qed.
Print Assumptions C06_call_ret_inverse.

(* SAVE %r: FP then r..r8 stored upward from SP, SP + 28, FP := new SP (explicit final state) *)
Theorem C06_save_effect :
  forall ir m r,
    iopcode ir = 16 -> oreg (op0 ir) = Some r -> 3 <= r <= 9 ->
    bus_wf (mbus m) -> in_ram_w (R m R_SP) -> R m R_SP + 28 <= RAME ->
    exec ir m = Ok (ilen ir) (setR (setR (saved_mem m r) R_SP (R m R_SP + 28)) R_FP (R m R_SP + 28)).
Proof. exact save_effect. Qed.
Print Assumptions C06_save_effect.

(* SAVE %r ... RESTORE %r for every save range r3..r8 (and the empty one): every register including SP, FP, AP is
   back, and nothing outside the 28-byte save area was written *)
Theorem C06_save_restore_inverse :
  forall ir1 ir2 m r,
    iopcode ir1 = 16 -> iopcode ir2 = 24 -> oreg (op0 ir1) = Some r -> oreg (op0 ir2) = Some r -> 3 <= r <= 9 ->
    bus_wf (mbus m) -> in_ram_w (R m R_SP) -> R m R_SP + 28 <= RAME ->
    (forall i, 0 <= i <= 15 -> 0 <= R m i < 4294967296) ->
    exists m1 m2,
      exec ir1 m = Ok (ilen ir1) m1 /\ R m1 R_SP = R m R_SP + 28 /\ R m1 R_FP = R m R_SP + 28
      /\ (forall i, 0 <= i <= 15 -> i <> 9 -> i <> 12 -> R m1 i = R m i)
      /\ exec ir2 m1 = Ok (ilen ir2) m2
      /\ (forall i, 0 <= i <= 15 -> R m2 i = R m i)
      /\ (forall a, RAMB <= a -> (a < R m R_SP \/ R m R_SP + 28 <= a) -> ramb m2 a = ramb m a).
Proof. exact save_then_restore. Qed.
Print Assumptions C06_save_restore_inverse.

(* RESTORE from any frame in RAM *)
Theorem C06_restore_effect :
  forall ir m r,
    iopcode ir = 24 -> oreg (op0 ir) = Some r -> 3 <= r <= 9 -> bus_wf (mbus m) ->
    RAMB + 28 <= R m R_FP -> R m R_FP <= RAME -> R m R_FP mod 4 = 0 ->
    exists m2, exec ir m = Ok (ilen ir) m2 /\ mbus m2 = mbus m
      /\ R m2 R_SP = R m R_FP - 28 /\ R m2 R_FP = ldw m (R m R_FP - 28)
      /\ (forall k, r <= k <= 8 -> R m2 k = ldw m (R m R_FP - 24 + 4 * (k - r)))
      /\ (forall i, 0 <= i <= 15 -> i <> 9 -> i <> 12 -> (i < r \/ 8 < i) -> R m2 i = R m i).
Proof. exact restore_effect. Qed.
Print Assumptions C06_restore_effect.

(* non-vacuity: the power-on machine with SP set into RAM satisfies the hypotheses *)
Example C06_nonvacuous :
  let m := setR (mach_new 0) R_SP 7536640 in
  bus_wf (mbus m) /\ in_ram_w (R m R_SP) /\ in_ram_w (R m R_SP + 4) /\ R m R_SP + 28 <= RAME
  /\ (forall i, 0 <= i <= 15 -> 0 <= R m i < 4294967296).
Proof.
  cbv zeta. split; [apply bus_new_wf|]. rewrite RegKit.R_setR_same.
  split; [unfold in_ram_w, RAMB, RAME; cbn; repeat split; discriminate|].
  split; [unfold in_ram_w, RAMB, RAME; cbn; repeat split; discriminate|].
  split; [unfold RAME; cbn; discriminate|].
  intros i Hi.
  assert (Ei : i = 0 \/ i = 1 \/ i = 2 \/ i = 3 \/ i = 4 \/ i = 5 \/ i = 6 \/ i = 7 \/ i = 8 \/ i = 9 \/ i = 10
             \/ i = 11 \/ i = 12 \/ i = 13 \/ i = 14 \/ i = 15) by Lia.lia.
  repeat (destruct Ei as [Ei|Ei]); subst i; cbn; split; (discriminate || reflexivity).
Qed.

(* ---- arbitrary nesting (Proofs/NestProofs.v) ----
   `nest` is the inductive family of balanced nestings: sequences and nestings, to any depth, of
   PUSHW..POPW, subroutine entry..RSB, [argument pushes] CALL..RET and SAVE %r [clobber r..r8] .. RESTORE %r, each
   instruction represented by its contract; the contracts are theorems about the dispatch arms (C06_*_contract). *)
From Dmd Require Import Proofs.NestProofs.

Theorem C06_balanced_nest_keeps_frame :
  forall m m', nest m m' ->
    bus_wf (mbus m') /\ R m' R_SP = R m R_SP
    /\ (forall i, 3 <= i <= 14 -> i <> 11 -> i <> 12 -> R m' i = R m i)          (* r3-r8, FP, AP, PCBP, ISP *)
    /\ (forall a, RAMB <= a -> a < R m R_SP -> ramb m' a = ramb m a).             (* the stack below SP *)
Proof.
  intros m m' N. destruct (nest_frame_kept m m' N) as [W S K B].
  split; [exact W|]. split; [exact S|]. split; [exact K | exact B].
Qed.
Print Assumptions C06_balanced_nest_keeps_frame.

Theorem C06_nested_push_pop_returns_the_word :
  forall m v m1 m2 dst m3,
    RAMB <= R m R_SP -> push_like m v m1 -> nest m1 m2 -> pop_like m2 dst m3 -> R m3 dst = w32 v.
Proof. exact push_nest_pop_value. Qed.
Print Assumptions C06_nested_push_pop_returns_the_word.

Theorem C06_nested_call_returns_after_the_call :
  forall m a ret m1 m2 m3,
    RAMB <= R m R_SP -> call_like m a ret m1 -> nest m1 m2 -> ret_like m2 m3 -> R m3 R_PC = w32 ret.
Proof. exact call_nest_ret_pc. Qed.
Print Assumptions C06_nested_call_returns_after_the_call.

(* the contracts are what the instructions do (stack in RAM) *)
Theorem C06_instruction_contracts :
  (forall ir m v, iopcode ir = 160 -> bus_wf (mbus m) -> in_ram_w (R m R_SP) -> read_op ir 0 m = Ok v m ->
     exists m1, exec ir m = Ok (ilen ir) m1 /\ push_like m v m1)
  /\ (forall m ret pc', bus_wf (mbus m) -> in_ram_w (R m R_SP) ->
     stack_push ret m = Ok tt (pushed m ret) /\ push_like m ret (setR (pushed m ret) R_PC pc'))
  /\ (forall ir m r, iopcode ir = 32 -> bus_wf (mbus m) -> in_ram_w (R m R_SP - 4) -> 4 <= R m R_SP < 4294967296 ->
     omode (op0 ir) = MRegister -> oreg (op0 ir) = Some r -> 0 <= r <= 2 ->
     exists m3, exec ir m = Ok (ilen ir) m3 /\ pop_like m r m3)
  /\ (forall ir m, iopcode ir = 120 -> bus_wf (mbus m) -> in_ram_w (R m R_SP - 4) -> 4 <= R m R_SP < 4294967296 ->
     exists m3, exec ir m = Ok 0 m3 /\ pop_like m R_PC m3)
  /\ (forall ir m a b, iopcode ir = 44 -> bus_wf (mbus m) -> in_ram_w (R m R_SP) -> in_ram_w (R m R_SP + 4) ->
     0 <= R m R_AP < 4294967296 -> effective_address ir 0 m = Ok a m -> effective_address ir 1 m = Ok b m ->
     exists m1, exec ir m = Ok 0 m1 /\ call_like m a (R m R_PC + ilen ir) m1)
  /\ (forall ir m, iopcode ir = 8 -> bus_wf (mbus m) -> in_ram_w (R m R_SP - 8) -> in_ram_w (R m R_SP - 4) ->
     R m R_SP < 4294967296 -> exists m3, exec ir m = Ok 0 m3 /\ ret_like m m3)
  /\ (forall ir m r, iopcode ir = 16 -> oreg (op0 ir) = Some r -> 3 <= r <= 9 -> bus_wf (mbus m) ->
     in_ram_w (R m R_SP) -> R m R_SP + 28 <= RAME -> (forall i, 0 <= i <= 15 -> 0 <= R m i < 4294967296) ->
     exists m1, exec ir m = Ok (ilen ir) m1 /\ save_like m r m1)
  /\ (forall ir m r, iopcode ir = 24 -> oreg (op0 ir) = Some r -> 3 <= r <= 9 -> bus_wf (mbus m) ->
     RAMB + 28 <= R m R_FP -> R m R_FP <= RAME -> R m R_FP mod 4 = 0 ->
     exists m3, exec ir m = Ok (ilen ir) m3 /\ restore_like m r m3).
Proof.
  split; [exact pushw_contract|]. split; [exact entry_contract|]. split; [exact popw_contract|].
  split; [exact rsb_contract|]. split; [exact call_contract|]. split; [exact ret_contract|].
  split; [exact save_contract | exact restore_contract].
Qed.
Print Assumptions C06_instruction_contracts.
