(* C08  Bytes sent to the terminal arrive once, in order, or the loss is flagged.
   The port model is polymorphic in the payload: the theorems hold for bytes carrying any ghost tag. *)
From Coq Require Import ZArith List Bool.
From Dmd Require Import Model.Bits Model.Fifo Model.Mem Model.Duart Proofs.FifoProofs Proofs.PortProofs Proofs.DuartProofs Proofs.DeviceRefine Model.Bus Proofs.BusDuart Gen.GenDuart Proofs.RegMapTie Gen.GenPort Proofs.PortTie Gen.GenCmd Proofs.CmdTie.
Import ListNotations.
Open Scope Z_scope.

(* the circular buffer is a FIFO of at most three elements *)
Theorem C08_fifo_refines_queue :
  forall (A : Type) (q : fifo A) (c : A), fifo_wf q ->
    (flen q < 3 -> exists q', fifo_push q c = Some q' /\ fifo_wf q' /\ flen q' = flen q + 1
                              /\ fifo_contents q' = fifo_contents q ++ [c])
    /\ (flen q = 3 -> fifo_push q c = None)
    /\ (0 < flen q -> exists v q', fifo_pop q = Some (v, q') /\ fifo_wf q' /\ flen q' = flen q - 1
                                   /\ fifo_contents q = v :: fifo_contents q')
    /\ (flen q = 0 -> fifo_pop q = None).
Proof.
  intros A q c W. repeat split.
  - exact (fifo_push_spec q c W). - exact (fifo_push_full q c).
  - exact (fifo_pop_spec q W). - exact (fifo_pop_empty q).
Qed.
Print Assumptions C08_fifo_refines_queue.

(* over every history of host enqueues, time steps, guest reads, commands, mode/CSR/THR writes and host polls
   (receiver not in loop-back): the bytes read while RxRDY was set, followed by what is still in the pipeline,
   form an in-order subsequence of what the host queued: nothing invented, nothing twice, nothing reordered *)
Theorem C08_rx_in_order_at_most_once :
  forall (A : Type) (dflt : A) (is02 : A -> bool) (ops : list (@pop A)) (p : port A) (E D : list A),
    PInv p -> loopback p = false -> forallb no_lb_op ops = true -> subseq (D ++ rx_pipe p) E ->
    let '(p', E', D') := rx_run is02 ops p E D in subseq (D' ++ rx_pipe p') E'.
Proof. exact (@rx_in_order_once). Qed.
Print Assumptions C08_rx_in_order_at_most_once.

Theorem C08_delivered_is_subsequence_of_queued :
  forall (A : Type) (dflt : A) (is02 : A -> bool) (ops : list (@pop A)) (tm : Z),
    forallb no_lb_op ops = true ->
    let '(_, E', D') := rx_run is02 ops (port_new dflt tm) [] [] in subseq D' E'.
Proof. exact (@rx_delivered_subseq). Qed.
Print Assumptions C08_delivered_is_subsequence_of_queued.

(* a byte leaves the pipeline undelivered only in a step that is a flagged overrun, a receiver reset,
   or a read made while the receiver did not report ready; every other step conserves the pipeline exactly *)
Theorem C08_loss_only_flagged :
  forall (A : Type) (dflt : A) (is02 : A -> bool) (o : @pop A) (p : port A),
    PInv p -> loopback p = false -> no_lb_op o = true ->
    let dD := match o with
              | PRead => if bset (stat p) STS_RXR then olist (fst (rx_read_char p)) else []
              | _ => [] end in
    let dE := match o with PEnq a => [a] | _ => [] end in
    dD ++ rx_pipe (pstep is02 o p) = rx_pipe p ++ dE
    \/ (exists tm k, o = PSvc tm k /\ bset (stat (pstep is02 o p)) STS_OER = true)
    \/ (exists c, o = PCmd c /\ is_reset_rx c = true)
    \/ (o = PRead /\ bset (stat p) STS_RXR = false).
Proof. exact (@rx_loss_only_flagged). Qed.
Print Assumptions C08_loss_only_flagged.

(* the overrun flag stays set until the guest issues reset-error *)
Theorem C08_overrun_flag_sticky :
  forall (A : Type) (dflt : A) (is02 : A -> bool) (o : @pop A) (p : port A),
    PInv p -> bset (stat p) STS_OER = true ->
    (forall c, o = PCmd c -> is_reset_err c = false) ->
    bset (stat (pstep is02 o p)) STS_OER = true.
Proof. exact (@oer_sticky). Qed.
Print Assumptions C08_overrun_flag_sticky.

(* the invariant the above rest on holds in every reachable state *)
Theorem C08_invariant_reachable :
  forall (A : Type) (dflt : A) (is02 : A -> bool),
    (forall tm, PInv (port_new dflt tm)) /\ (forall (o : @pop A) p, PInv p -> PInv (pstep is02 o p)).
Proof. intros A dflt is02. split; [exact (pinv_new dflt) | exact (pinv_step dflt is02)]. Qed.
Print Assumptions C08_invariant_reachable.

(* ---- the same at the device's register interface (Proofs/DeviceRefine.v) ---- *)

(* the register map as a function: every device operation (a read or write at any offset with any value, a
   service call at any time, an interrupt poll, a host enqueue or poll on either channel, a mouse event) does to a
   channel's port exactly the one port operation `chan_op` names, or nothing *)
Theorem C08_register_map_refines_ports :
  forall (b : bool) (o : dop) (d : duart),
    port_of b (dstep o d)
    = match chan_op b o d with Some po => @pstep Z is02z po (port_of b d) | None => port_of b d end.
Proof. exact dstep_chan. Qed.
Print Assumptions C08_register_map_refines_ports.

(* over every history of device operations, on either channel (b): the bytes the guest read at the channel's
   receive register while its status register showed RxRDY, followed by what is still in that channel's pipeline,
   form an in-order subsequence of the bytes the host queued for that channel -- whatever happens meanwhile on the
   other channel, the mouse inputs and the interrupt logic *)
Theorem C08_device_rx_in_order_at_most_once :
  forall (b : bool) (ops : list dop) (d : duart) (E D : list Z),
    DInv d -> loopback (port_of b d) = false -> forallb (dev_no_lb b) ops = true ->
    subseq (D ++ rx_pipe (port_of b d)) E ->
    let '(d', E', D') := drx_run b ops d E D in subseq (D' ++ rx_pipe (port_of b d')) E'.
Proof. exact device_rx_in_order_once. Qed.
Print Assumptions C08_device_rx_in_order_at_most_once.

Theorem C08_device_delivered_is_subsequence_of_queued :
  forall (b : bool) (ops : list dop) (tm : Z),
    forallb (dev_no_lb b) ops = true ->
    let '(_, E', D') := drx_run b ops (duart_new tm) [] [] in subseq D' E'.
Proof. exact device_rx_delivered_subseq. Qed.
Print Assumptions C08_device_delivered_is_subsequence_of_queued.

(* ---- and at guest addresses (Proofs/BusDuart.v) ---- *)

(* every guest data access -- byte, halfword or word, read or write, at any address with any value -- acts on the
   DUART as the device operations the address decode names (one register read or write when it is aligned and lands
   in 0x200000..0x20003f; a halfword at a is the register at a+2, a word the register at a+3) and otherwise leaves the
   DUART exactly as it was *)
Theorem C08_bus_access_is_device_operation :
  forall (x : bacc) (b : bus), duart_ (bus_do x b) = drun (bacc_dops x) (duart_ b).
Proof. exact bus_do_duart. Qed.
Print Assumptions C08_bus_access_is_device_operation.

(* from power-on, over every interleaving of guest bus accesses with host enqueues and polls, service calls,
   interrupt polls and mouse events: what the guest read at a channel's receive register while its status showed
   RxRDY is an in-order subsequence of what the host queued for that channel *)
Theorem C08_guest_rx_delivered_is_subsequence_of_queued :
  forall (chan : bool) (ops : list sysop) (now : Z),
    forallb (dev_no_lb chan) (flat_map sys_dops ops) = true ->
    let '(d', E', D') := drx_run chan (flat_map sys_dops ops) (duart_ (bus_new now)) [] [] in
    subseq D' E' /\ d' = duart_ (fold_left (fun s o => sys_step o s) ops (bus_new now)).
Proof. exact guest_rx_delivered_subseq. Qed.
Print Assumptions C08_guest_rx_delivered_is_subsequence_of_queued.

(* ---- the register map is the source's (Gen/GenDuart.v is regenerated from /repo/src/duart.rs on every run) ---- *)
Theorem C08_register_map_is_source_register_map :
  (forall off d, duart_read_byte off d = RErr BNoDevice <-> ~ In (w8 off) (arm_offsets gd_read_arms))
  /\ (forall off ports clr b d,
        In (off, ports, clr) gd_read_arms -> chan_op b (DRead off) d <> None -> In (chan_no b) ports)
  /\ (chan_base false + 3 = gd_MR12A /\ chan_base false + 7 = gd_CSRA /\ chan_base false + 11 = gd_CRA
      /\ chan_base false + 15 = gd_RHRA /\ chan_base false + 15 = gd_THRA
      /\ chan_base true + 3 = gd_MR12B /\ chan_base true + 7 = gd_CSRB /\ chan_base true + 11 = gd_CRB
      /\ chan_base true + 15 = gd_RHRB /\ chan_base true + 15 = gd_THRB
      /\ gd_PORT_0 = chan_no false /\ gd_PORT_1 = chan_no true)
  /\ DUART_BASE = gd_START_ADDR.
Proof.
  split; [exact read_decoded|]. split; [exact read_arm_channel|].
  split; [exact register_offsets_are_source_constants | reflexivity].
Qed.
Print Assumptions C08_register_map_is_source_register_map.

(* enable / disable receiver and the receiver-enabled test are the source's functions (translated on every run) *)
Theorem C08_receiver_helpers_are_source_functions :
  forall (A : Type) (p : port A),
    enable_rx p = g_enable_rx p /\ disable_rx p = g_disable_rx p /\ rx_enabled p = g_rx_enabled p.
Proof. intros A p. repeat apply conj; [apply enable_rx_is_source | apply disable_rx_is_source | apply rx_enabled_is_source]. Qed.
Print Assumptions C08_receiver_helpers_are_source_functions.

(* the command interpreter is the source's: Gen/GenCmd.v is Duart::handle_command translated statement by statement from
   /repo/src/duart.rs on every run (per-port interrupt-status table, enable / disable arms, the command match with its
   resets and break commands), and the model's handle_command equals it for every command byte, channel and state *)
Theorem C08_command_interpreter_is_source_function :
  forall cmd pn d, handle_command cmd pn d = g_handle_command cmd pn d.
Proof. exact handle_command_is_source. Qed.
Print Assumptions C08_command_interpreter_is_source_function.
