(* C05  Conditional branches and returns are taken exactly on their condition. *)
From Coq Require Import ZArith List Bool.
From Dmd Require Import Model.Bits Model.Types Model.Bus Model.Cpu Gen.GenOpcodes Gen.GenDispatch
     Spec.ArchCond Proofs.BranchProofs.
Open Scope Z_scope.

(* the condition of every branch / return arm, as translated from the source on this run, is the architected
   predicate: all 42 opcodes (duplicate encodings included) x all 16 N,Z,V,C combinations; each opcode has an arm
   of the right kind (so every conditional return is implemented and uses the predicate of its branch) *)
Theorem C05_source_predicates_are_architected : branch_preds_ok = true.
Proof. exact branch_preds_architected. Qed.
Print Assumptions C05_source_predicates_are_architected.

Theorem C05_predicate_of_opcode :
  forall opc c k n z v cf, In (opc, c, k) arch_branch_table ->
    g_branch_pred opc n z v cf = Some (cond_holds c n z v cf)
    /\ exists o, find (fun p => fst p =? opc) g_branch_arms = Some (o, k).
Proof. exact pred_of_table. Qed.
Print Assumptions C05_predicate_of_opcode.

(* what the model executes for such an opcode: the PC increment of a branch (sign-extended displacement when taken,
   the instruction length otherwise: PC' = (PC + increment) mod 2^32 by step), pop-and-return for a taken return,
   nothing at all for an untaken one *)
Theorem C05_conditional_transfer :
  forall ir m opc c k, In (opc, c, k) arch_branch_table -> iopcode ir = opc ->
    let taken := cond_holds c (flag F_N m) (flag F_Z m) (flag F_V m) (flag F_C m) in
    exec ir m =
    match k with
    | BrB => Ok (if taken then sext8 (oemb (op0 ir)) else ilen ir) m
    | BrH => Ok (if taken then sext16 (oemb (op0 ir)) else ilen ir) m
    | Ret => cond_return ir taken m
    end.
Proof. exact exec_cond. Qed.
Print Assumptions C05_conditional_transfer.

Theorem C05_return_taken_or_not :
  forall ir taken m,
    cond_return ir taken m =
    if taken then
      match rd_word (sub32 (R m R_SP) 4) m with
      | Ok v m' => Ok 0 (setR (setR m' R_SP (sub32 (R m' R_SP) 4)) R_PC v)
      | Err e m' => Err e m'
      | Panic => Panic
      | OutOfFuel => OutOfFuel
      end
    else Ok (ilen ir) m.
Proof. exact cond_return_spec. Qed.
Print Assumptions C05_return_taken_or_not.

(* unconditional branch, jump, branch-to-subroutine and jump-to-subroutine always transfer *)
Theorem C05_unconditional_transfers :
  forall ir m,
    (iopcode ir = 123 -> exec ir m = Ok (sext8 (oemb (op0 ir))) m)
    /\ (iopcode ir = 122 -> exec ir m = Ok (sext16 (oemb (op0 ir))) m)
    /\ (iopcode ir = 120 -> exec ir m = cond_return ir true m)
    /\ (iopcode ir = 55 -> exec ir m = bind (stack_push (w32 (R m R_PC + ilen ir)) m)
                                            (fun _ m => Ok (sext8 (oemb (op0 ir))) m))
    /\ (iopcode ir = 54 -> exec ir m = bind (stack_push (w32 (R m R_PC + ilen ir)) m)
                                            (fun _ m => Ok (sext16 (oemb (op0 ir))) m))
    /\ (iopcode ir = 36 -> exec ir m = bind (effective_address ir 0 m) (fun a m => Ok 0 (setR m R_PC a)))
    /\ (iopcode ir = 52 -> exec ir m = bind (stack_push (w32 (R m R_PC + ilen ir)) m)
                                            (fun _ m => bind (effective_address ir 0 m)
                                                             (fun a m => Ok 0 (setR m R_PC a)))).
Proof.
  intros ir m. repeat split.
  - exact (exec_brb ir m). - exact (exec_brh ir m). - exact (exec_rsb ir m). - exact (exec_bsbb ir m).
  - exact (exec_bsbh ir m). - exact (exec_jmp ir m). - exact (exec_jsb ir m).
Qed.
Print Assumptions C05_unconditional_transfers.

(* the four condition codes the branch predicates read are the source's flag getters (bodies translated on every run) *)
From Dmd Require Import Model.Cpu Gen.GenFlags Proofs.FlagTie.
Theorem C05_flag_getters_are_source_functions :
  forall m, flag F_C m = g_c_flag m /\ flag F_V m = g_v_flag m /\ flag F_Z m = g_z_flag m /\ flag F_N m = g_n_flag m.
Proof. exact getters_are_source. Qed.
Print Assumptions C05_flag_getters_are_source_functions.
