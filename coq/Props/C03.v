(* C03  Operands are addressed, extended and stored per addressing mode and type. *)
From Coq Require Import ZArith List Bool.
From Dmd Require Import Model.Bits Model.Types Model.Mem Model.Bus Model.Decode Model.Cpu.
From Dmd Require Import Proofs.BusProofs Proofs.MachKit Proofs.OperandProofs.
Open Scope Z_scope.

(* the seven direct memory modes: the model's effective address is the architected one -- base register (FP / AP
   for the short-offset modes) plus the displacement sign-extended from its encoded width, wrapping at 2^32;
   computing it changes nothing *)
Theorem C03_effective_address_direct :
  forall ir k m a,
    let o := get_op ir k in
    0 <= oemb o < 4294967296 ->
    (match omode o with MFpShort | MApShort | MAbsolute => True | _ => oreg o <> None end) ->
    arch_ea_direct (omode o) (base_value m o) (oemb o) = Some a ->
    effective_address ir k m = Ok a m.
Proof. exact ea_direct. Qed.
Print Assumptions C03_effective_address_direct.

(* the four deferred modes: the address is the word read at the architected pointer address *)
Theorem C03_effective_address_deferred :
  forall ir k m p,
    let o := get_op ir k in
    0 <= oemb o < 4294967296 ->
    (match omode o with MAbsoluteDeferred => True | _ => oreg o <> None end) ->
    arch_ea_pointer (omode o) (base_value m o) (oemb o) = Some p ->
    effective_address ir k m = rd_word p m.
Proof. exact ea_deferred. Qed.
Print Assumptions C03_effective_address_deferred.

Theorem C03_displacements_are_sign_extended :
  forall v e, add_offset v (sext8 e) = (v + s8 e) mod 2 ^ 32
              /\ add_offset v (sext16 e) = (v + s16 e) mod 2 ^ 32
              /\ (0 <= e < 4294967296 -> add_offset v e = (v + s32 e) mod 2 ^ 32).
Proof. intros. split; [apply add_offset_sext8 | split; [apply add_offset_sext16 | apply add_offset_word]]. Qed.
Print Assumptions C03_displacements_are_sign_extended.

(* register sources are extended by the operand's type (the expanded type when one is in force): bytes unsigned,
   halfwords and words signed, explicit unsigned / signed types as named *)
Theorem C03_register_source_extension :
  forall ir k m r,
    let o := get_op ir k in
    omode o = MRegister -> oreg o = Some r ->
    read_op ir k m = match arch_extend (data_type o) (R m r) with
                     | Some v => Ok v m
                     | None => Err (EExc IllegalOpcode) m end.
Proof. exact read_register_extension. Qed.
Print Assumptions C03_register_source_extension.

Theorem C03_memory_source_extension :
  forall ir k m eff m1,
    let o := get_op ir k in
    (match omode o with MRegister | MPosLit | MNegLit | MWordImm | MHalfImm | MByteImm => False | _ => True end) ->
    effective_address ir k m = Ok eff m1 ->
    read_op ir k m =
    match data_type o with
    | DWord | DUWord => rd_word eff m1
    | DHalf => bind (rd_half eff m1) (fun v m => Ok ((s16 v) mod 2 ^ 32) m)
    | DUHalf => rd_half eff m1
    | DByte => rd_byte eff m1
    | DSByte => bind (rd_byte eff m1) (fun v m => Ok ((s8 v) mod 2 ^ 32) m)
    | DNone => Err (EExc IllegalOpcode) m1
    end.
Proof. exact read_memory_extension. Qed.
Print Assumptions C03_memory_source_extension.

(* literals and immediates are sign-extended from their encoded size, whatever the operand type *)
Theorem C03_literal_immediate_extension :
  forall ir k m,
    let o := get_op ir k in
    (omode o = MPosLit \/ omode o = MNegLit \/ omode o = MByteImm -> read_op ir k m = Ok ((s8 (oemb o)) mod 2 ^ 32) m)
    /\ (omode o = MHalfImm -> read_op ir k m = Ok ((s16 (oemb o)) mod 2 ^ 32) m)
    /\ (omode o = MWordImm -> read_op ir k m = Ok (oemb o) m).
Proof. exact read_literal_extension. Qed.
Print Assumptions C03_literal_immediate_extension.

(* literal and immediate destinations are rejected as illegal; nothing changes *)
Theorem C03_literal_immediate_destination_illegal :
  forall ir k v m,
    let o := get_op ir k in
    omode o = MPosLit \/ omode o = MNegLit \/ omode o = MByteImm \/ omode o = MHalfImm \/ omode o = MWordImm ->
    write_op ir k v m = Err (EExc IllegalOpcode) m.
Proof. exact write_literal_illegal. Qed.
Print Assumptions C03_literal_immediate_destination_illegal.

(* a store to memory is one bus write of exactly the destination's size at the effective address ... *)
Theorem C03_store_uses_destination_size :
  forall ir k v m eff m1,
    let o := get_op ir k in
    (match omode o with MRegister | MPosLit | MNegLit | MWordImm | MHalfImm | MByteImm => False | _ => True end) ->
    effective_address ir k m = Ok eff m1 ->
    write_op ir k v m =
    match data_type o with
    | DWord | DUWord => wr_word eff v m1
    | DHalf | DUHalf => wr_half eff (v mod 2 ^ 16) m1
    | DByte | DSByte => wr_byte eff (v mod 2 ^ 8) m1
    | DNone => Err (EExc IllegalOpcode) m1
    end.
Proof. exact write_memory_size. Qed.
Print Assumptions C03_store_uses_destination_size.

(* ... and a word / halfword / byte write to RAM changes exactly 4 / 2 / 1 bytes, big-endian, and no register *)
Theorem C03_store_writes_exact_bytes :
  forall m a v a', bus_wf (mbus m) -> RAMB <= a' ->
    (in_ram_w a -> exists m', wr_word a v m = Ok tt m' /\ mregs m' = mregs m
        /\ ramb m' a' = if (a <=? a') && (a' <? a + 4) then w8 (w32 v / 2 ^ (8 * (a + 3 - a'))) else ramb m a')
    /\ (in_ram_h a -> exists m', wr_half a v m = Ok tt m' /\ mregs m' = mregs m
        /\ ramb m' a' = if a' =? a then w8 (w16 v / 256) else if a' =? a + 1 then w8 (w16 v) else ramb m a')
    /\ (in_ram_b a -> exists m', wr_byte a v m = Ok tt m' /\ mregs m' = mregs m
        /\ ramb m' a' = if a' =? a then w8 v else ramb m a').
Proof.
  intros m a v a' W Ha'. split; [intros H; now apply store_word_exact|].
  split; [intros H; now apply store_half_exact | intros H; now apply store_byte_exact].
Qed.
Print Assumptions C03_store_writes_exact_bytes.

Theorem C03_register_destination :
  forall ir k v m r, let o := get_op ir k in
    omode o = MRegister -> oreg o = Some r -> write_op ir k v m = Ok tt (setR m r v).
Proof. exact write_register. Qed.
Print Assumptions C03_register_destination.

(* expanded types: an operand decoded after a prefix carries the prefix's type, one without carries the type
   handed down, and the type an operand carries is what the next operand's decoding receives *)
Theorem C03_expanded_type_governs_following_operands :
  forall St f1 f2 f4 mn ot rest et len s o os l s',
    ot <> ONone ->
    decode_ops St f1 f2 f4 mn (ot :: rest) et len s = Ok (o :: os, l) s' ->
    exists l1 s1, decode_operand St f1 f2 f4 mn ot et len s = Ok (o, l1) s1
      /\ decode_ops St f1 f2 f4 mn rest (oetype o) l1 s1 = Ok (os, l) s'.
Proof. exact etype_handed_on. Qed.
Print Assumptions C03_expanded_type_governs_following_operands.

Theorem C03_descriptor_type :
  forall St f1 f2 f4 fuel dt et len s o l s',
    decode_descriptor St f1 f2 f4 fuel dt et false len s = Ok (o, l) s' ->
    otype o = dt /\
    (oetype o = et \/ exists d, f1 len s = Ok d (match f1 len s with Ok _ s1 => s1 | _ => s end)
                                 /\ d / 16 = 14 /\ d mod 16 <> 15 /\ oetype o = etype_of (d mod 16)).
Proof. exact descriptor_etype. Qed.
Print Assumptions C03_descriptor_type.
