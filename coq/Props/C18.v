(* C18  Equivalent instruction forms produce identical machine state.
   strip r = the outcome of an instruction (final machine state: all registers incl. the full PSW, all memories and
   devices; or the error and the state it left) without the instruction's own length.  Two forms are equivalent
   when strip (exec form1 m) = strip (exec form2 m) for EVERY machine state m. *)
From Coq Require Import ZArith List Bool.
From Dmd Require Import Model.Bits Model.Types Model.Mem Model.Bus Model.Decode Model.Cpu.
From Dmd Require Import Proofs.EquivProofs.
Open Scope Z_scope.

(* two-operand form = three-operand form with the destination repeated: ADD SUB MUL DIV MOD AND OR XOR x W H B,
   every operand mode and type, every state, faults included *)
Theorem C18_two_operand_equals_three_operand :
  forall ir2 ir3 m p,
    In p op23_pairs -> iopcode ir2 = fst p -> iopcode ir3 = snd p -> dst_repeated ir2 ir3 ->
    strip (exec ir2 m) = strip (exec ir3 m).
Proof. exact op2_eq_op3. Qed.
Print Assumptions C18_two_operand_equals_three_operand.

(* increment = add of one (all sizes; needs the overflow test to be symmetric in its addends) *)
Theorem C18_inc_equals_add_one :
  forall iri ira m,
    (iopcode iri = 144 /\ iopcode ira = 156) \/ (iopcode iri = 146 /\ iopcode ira = 158) \/ (iopcode iri = 147 /\ iopcode ira = 159) ->
    literal_one (get_op ira 0) -> get_op ira 1 = get_op iri 0 ->
    (forall a m1, read_op iri 0 m = Ok a m1 -> 0 <= a < 4294967296) ->
    strip (exec iri m) = strip (exec ira m).
Proof. exact inc_eq_add1. Qed.
Print Assumptions C18_inc_equals_add_one.

Theorem C18_dec_equals_sub_one :
  forall ird irs m,
    (iopcode ird = 148 /\ iopcode irs = 188) \/ (iopcode ird = 150 /\ iopcode irs = 190) \/ (iopcode ird = 151 /\ iopcode irs = 191) ->
    literal_one (get_op irs 0) -> get_op irs 1 = get_op ird 0 ->
    strip (exec ird m) = strip (exec irs m).
Proof. exact dec_eq_sub1. Qed.
Print Assumptions C18_dec_equals_sub_one.

Theorem C18_add_overflow_symmetric :
  forall a b k, 0 <= a < 4294967296 -> 0 <= b < 4294967296 -> 0 <= k < 32 ->
    Z.testbit (Z.land (Z.lxor a (not32 b)) (Z.lxor a (w32 (a + b)))) k
    = Z.testbit (Z.land (Z.lxor b (not32 a)) (Z.lxor b (w32 (b + a)))) k.
Proof. exact add_overflow_symmetric. Qed.
Print Assumptions C18_add_overflow_symmetric.

(* test = compare with zero (word) *)
Theorem C18_tst_equals_cmp_zero :
  forall irt irc m,
    iopcode irt = 40 -> iopcode irc = 60 -> literal_zero (get_op irc 0) -> get_op irc 1 = get_op irt 0 ->
    (forall a m1, read_op irt 0 m = Ok a m1 -> 0 <= a) ->
    strip (exec irt m) = strip (exec irc m).
Proof. exact tstw_eq_cmpw0. Qed.
Print Assumptions C18_tst_equals_cmp_zero.

(* clear = move of zero (all sizes) *)
Theorem C18_clr_equals_mov_zero :
  forall irc irm m,
    (iopcode irc = 128 /\ iopcode irm = 132) \/ (iopcode irc = 130 /\ iopcode irm = 134) \/ (iopcode irc = 131 /\ iopcode irm = 135) ->
    literal_zero (get_op irm 0) -> get_op irm 1 = get_op irc 0 -> otype (get_op irc 0) <> DNone ->
    strip (exec irc m) = strip (exec irm m).
Proof. exact clr_eq_mov0. Qed.
Print Assumptions C18_clr_equals_mov_zero.

(* complement = exclusive-or with all ones (all sizes) *)
Theorem C18_mcom_equals_xor_ones :
  forall irm irx m,
    (iopcode irm = 136 /\ iopcode irx = 244) \/ (iopcode irm = 138 /\ iopcode irx = 246) \/ (iopcode irm = 139 /\ iopcode irx = 247) ->
    literal_minus_one (get_op irx 0) -> get_op irx 1 = get_op irm 0 -> get_op irx 2 = get_op irm 1 ->
    (forall a m1, read_op irm 0 m = Ok a m1 -> 0 <= a < 4294967296) ->
    strip (exec irm m) = strip (exec irx m).
Proof. exact mcom_eq_xor_ones. Qed.
Print Assumptions C18_mcom_equals_xor_ones.

(* arithmetic and logical left shift agree (operand reads free of side effects: the two arms read their operands
   in opposite order) *)
Theorem C18_als_equals_lls :
  forall ira irl m cnt v,
    iopcode ira = 192 -> iopcode irl = 208 ->
    get_op irl 0 = get_op ira 0 -> get_op irl 1 = get_op ira 1 -> get_op irl 2 = get_op ira 2 ->
    read_op ira 0 m = Ok cnt m -> read_op ira 1 m = Ok v m ->
    strip (exec ira m) = strip (exec irl m).
Proof. exact als_eq_lls. Qed.
Print Assumptions C18_als_equals_lls.

(* an instruction's effect depends on the instruction register only through the operand slots it names: the
   basis of "register operands = memory operands holding the same values" and of position independence *)
Theorem C18_operand_access_depends_on_slot_only :
  forall ir ir' k k' v m, get_op ir k = get_op ir' k' ->
    read_op ir k m = read_op ir' k' m /\ write_op ir k v m = write_op ir' k' v m
    /\ effective_address ir k m = effective_address ir' k' m.
Proof.
  intros. split; [now apply read_op_ext | split; [now apply write_op_ext | now apply effective_address_ext]].
Qed.
Print Assumptions C18_operand_access_depends_on_slot_only.

(* BIT sets the N and Z that AND of the same operands sets, clears C like it, and writes no register *)
From Dmd Require Import Proofs.AluFinal.
Theorem C18_bit_equals_and_flags :
  forall irb ira m a b r,
    (iopcode irb = 56 \/ iopcode irb = 58 \/ iopcode irb = 59) ->
    (iopcode ira = 248 \/ iopcode ira = 250 \/ iopcode ira = 251) ->
    read_op irb 0 m = Ok a m -> read_op irb 1 m = Ok b m -> read_op ira 0 m = Ok a m -> read_op ira 1 m = Ok b m ->
    omode (get_op ira 2) = MRegister -> oreg (get_op ira 2) = Some r -> 0 <= r <= 10 ->
    otype (op1 irb) = otype (get_op ira 2) -> otype (get_op ira 2) <> DNone ->
    exists mb ma, exec irb m = Ok (ilen irb) mb /\ exec ira m = Ok (ilen ira) ma
      /\ flag F_N mb = flag F_N ma /\ flag F_Z mb = flag F_Z ma /\ flag F_C mb = false /\ flag F_C ma = false
      /\ (forall i, 0 <= i <= 15 -> i <> 11 -> R mb i = R m i).
Proof. exact bit_and_same_nz. Qed.
Print Assumptions C18_bit_equals_and_flags.

(* PUSHW src ; POPW %rd  =  MOVW src,%rd  (register, condition codes, stack pointer, memory outside the dead word) *)
From Dmd Require Import Proofs.PushPopMov Proofs.MachKit Proofs.BusProofs.
Theorem C18_push_pop_equals_mov :
  forall irp irq irm m v rd,
    iopcode irp = 160 -> iopcode irq = 32 -> iopcode irm = 132 ->
    bus_wf (mbus m) -> in_ram_w (R m R_SP) -> R m R_SP + 4 < 4294967296 ->
    read_op irp 0 m = Ok v m -> read_op irm 0 m = Ok v m -> 0 <= v < 4294967296 ->
    omode (op0 irq) = MRegister -> oreg (op0 irq) = Some rd -> otype (op0 irq) = DWord ->
    omode (op1 irm) = MRegister -> oreg (op1 irm) = Some rd -> otype (op1 irm) = DWord ->
    0 <= rd <= 10 ->
    exists m1 m2 mm,
      exec irp m = Ok (ilen irp) m1 /\ exec irq m1 = Ok (ilen irq) m2 /\ exec irm m = Ok (ilen irm) mm
      /\ (forall i, 0 <= i <= 15 -> i <> 11 -> R m2 i = R mm i)
      /\ flag F_N m2 = flag F_N mm /\ flag F_Z m2 = flag F_Z mm /\ flag F_C m2 = flag F_C mm /\ flag F_V m2 = flag F_V mm
      /\ (forall a, RAMB <= a -> (a < R m R_SP \/ R m R_SP + 4 <= a) -> ramb m2 a = ramb mm a).
Proof. exact push_pop_is_mov. Qed.
Print Assumptions C18_push_pop_equals_mov.
