(* C17  Serial pacing and the 60 Hz tick follow emulated time (virtual clock; the wall-clock build is not modelled). *)
From Coq Require Import ZArith List Bool.
From Dmd Require Import Model.Bits Model.Fifo Model.Mem Model.Duart Spec.Scn2681 Gen.GenDuart
     Proofs.PortProofs Proofs.DuartProofs Proofs.DuartProofs2.
Open Scope Z_scope.

(* the tables the model uses are the tables in the source *)
Theorem C17_tables_are_source_tables :
  BAUD_RATES_A = gd_BAUD_RATES_A /\ BAUD_RATES_B = gd_BAUD_RATES_B /\ VERTICAL_BLANK_DELAY = gd_VERTICAL_BLANK_DELAY.
Proof. repeat split; reflexivity. Qed.
Print Assumptions C17_tables_are_source_tables.

(* all 13 valid clock-select codes x both baud sets: one character time is between 8 and 12 bit times of the
   data-sheet rate (to within one nanosecond of rounding) *)
Theorem C17_delay_table_8_to_12_bit_times :
  forallb (fun code => char_time_ok (delay_rate (code * 16) 0) (nth (Z.to_nat code) ds_rate2_set1 0)
                       && char_time_ok (delay_rate (code * 16) 128) (nth (Z.to_nat code) ds_rate2_set2 0))
          all_codes = true.
Proof. exact delay_table_ok. Qed.
Print Assumptions C17_delay_table_8_to_12_bit_times.

Theorem C17_delay_depends_on_code_and_set_only :
  forall csr acr, 0 <= csr < 256 ->
    delay_rate csr acr = delay_rate ((csr / 16) * 16) (if Z.land acr 128 =? 0 then 0 else 128).
Proof. exact delay_rate_low_bits. Qed.
Print Assumptions C17_delay_depends_on_code_and_set_only.

(* receive pacing: a transfer from the host queue happens only when the deadline has passed, re-arms the deadline
   one character time later, and a due byte is transferred by the very next service call *)
Theorem C17_rx_spacing_and_promptness :
  forall (now : Z) (p : port Z), PInv p -> loopback p = false ->
    let p' := rx_service now p in
    (rxq p' <> rxq p -> now >= next_rx p /\ next_rx p' = now + char_delay p /\ rx_enabled p = true)
    /\ (rx_enabled p = true -> rxq p <> [] -> now >= next_rx p ->
        exists c rest, rxq p = c :: rest /\ rxq p' = rest /\ bset (stat p') STS_RXR = true).
Proof.
  intros now p I Lb. pose proof (rx_service_spec is02z now p I Lb) as H. cbn zeta in H.
  exact (proj2 (proj2 (proj2 (proj2 (proj2 (proj2 (proj2 (proj2 (proj2 H))))))))).
Qed.
Print Assumptions C17_rx_spacing_and_promptness.

(* the vertical-blank request: raised only after the deadline, re-armed 1/60 s later (so never more often),
   raised by the first poll after the deadline, withdrawn by the acknowledging read *)
Theorem C17_vblank_period :
  forall tm d,
    (tm > next_vblank d -> next_vblank (snd (get_interrupt tm d)) = tm + VERTICAL_BLANK_DELAY
                           /\ bset (ivec (snd (get_interrupt tm d))) MOUSE_BLANK_INT = true)
    /\ (tm <= next_vblank d -> next_vblank (snd (get_interrupt tm d)) = next_vblank d).
Proof.
  intros tm d. destruct (get_interrupt_vblank tm d) as (E & B). destruct (vblank_spacing tm d) as (V1 & V2).
  split; intros H.
  - rewrite E. destruct (V1 H) as (N & _). split; [exact N | exact (B H)].
  - rewrite E, (V2 H). reflexivity.
Qed.
Print Assumptions C17_vblank_period.

Theorem C17_vblank_withdrawn_on_ack :
  forall d, let d1 := dstep (DRead 19) d in ivec d1 = 0 /\ bset (isr d1) ISTS_IPC = false.
Proof. exact ipcr_read_withdraws. Qed.
Print Assumptions C17_vblank_withdrawn_on_ack.
