(* C14  DUART status and interrupt requests always tell the truth. *)
From Coq Require Import ZArith List Bool.
From Dmd Require Import Model.Bits Model.Fifo Model.Mem Model.Duart Proofs.PortProofs Proofs.DuartProofs Gen.GenDuart Proofs.RegMapTie Gen.GenPort Proofs.PortTie Gen.GenCmd Proofs.CmdTie.
Open Scope Z_scope.

(* the status invariant holds after every history of guest accesses to any register offset with any value,
   host enqueues and polls, mouse-button events, service and interrupt polls at any times *)
Theorem C14_invariant_all_histories : forall ops tm, DInv (drun ops (duart_new tm)).
Proof. exact dinv_all_histories. Qed.
Print Assumptions C14_invariant_all_histories.

(* RxRDY never without real data: the read returns the oldest byte actually received *)
Theorem C14_rxrdy_no_phantom :
  forall d, DInv d ->
    (bset (stat (pa d)) STS_RXR = true ->
       exists v d', duart_read_byte 15 d = ROk (v, d') /\ rx_held (pa d) = v :: rx_held (pa d')
                    /\ rx_enabled (pa d) = true)
    /\ (bset (stat (pb d)) STS_RXR = true ->
       exists v d', duart_read_byte 47 d = ROk (v, d') /\ rx_held (pb d) = v :: rx_held (pb d')
                    /\ rx_enabled (pb d) = true).
Proof. intros d I. split; [exact (rxrdy_no_phantom_a d I) | exact (rxrdy_no_phantom_b d I)]. Qed.
Print Assumptions C14_rxrdy_no_phantom.

(* every arriving character sets RxRDY; reading the last buffered byte clears it *)
Theorem C14_arrival_sets_and_last_read_clears :
  forall (p : port Z), PInv p ->
    (forall c, rx_enabled p = true -> bset (stat (rx_char p c)) STS_RXR = true)
    /\ (rx_held (snd (rx_read_char p)) = [] -> fst (rx_read_char p) <> None ->
        bset (stat (snd (rx_read_char p))) STS_RXR = false).
Proof.
  intros p I. split.
  - intros c En. exact (proj1 (proj2 (rx_char_spec is02z p c I En))).
  - pose proof (rx_read_char_spec 0 is02z p I) as H. cbn zeta in H.
    exact (proj2 (proj2 (proj2 (proj2 (proj2 (proj2 (proj2 (proj2 (proj2 (proj2 (proj2 H))))))))))).
Qed.
Print Assumptions C14_arrival_sets_and_last_read_clears.

Theorem C14_txrdy_implies_thr_empty :
  forall d, DInv d ->
    (bset (stat (pa d)) STS_TXR = true -> tx_hold (pa d) = None)
    /\ (bset (stat (pb d)) STS_TXR = true -> tx_hold (pb d) = None).
Proof. exact txrdy_implies_thr_empty. Qed.
Print Assumptions C14_txrdy_implies_thr_empty.

(* no lost wake-up *)
Theorem C14_no_lost_wakeup :
  forall tm d,
    let v := fst (get_interrupt tm d) in
    let d' := snd (get_interrupt tm d) in
    (bset (stat (pa d)) STS_RXR = true ->
       exists val, v = Some val /\ bset val RX_INT = true /\ bset (isr d') ISTS_RAI = true)
    /\ (bset (stat (pb d)) STS_RXR = true ->
       exists val, v = Some val /\ bset val KEYBOARD_INT = true /\ bset (isr d') ISTS_RBI = true)
    /\ (bset (stat (pa d)) STS_TXR = true ->
       exists val, v = Some val /\ bset val TX_INT = true /\ bset (isr d') ISTS_TAI = true)
    /\ pa d' = pa d /\ pb d' = pb d.
Proof. exact no_lost_wakeup. Qed.
Print Assumptions C14_no_lost_wakeup.

(* no stuck request *)
Theorem C14_no_stuck_request_after_drain :
  forall d tm,
    (let d1 := dstep (DRead 15) d in
     bset (stat (pa d1)) STS_RXR = false ->
     bset (ivec d1) RX_INT = false /\ bset (isr d1) ISTS_RAI = false
     /\ bset (ivec (snd (get_interrupt tm d1))) RX_INT = false
     /\ bset (isr (snd (get_interrupt tm d1))) ISTS_RAI = false)
    /\ (let d1 := dstep (DRead 47) d in
     bset (stat (pb d1)) STS_RXR = false ->
     bset (ivec d1) KEYBOARD_INT = false /\ bset (isr d1) ISTS_RBI = false
     /\ bset (ivec (snd (get_interrupt tm d1))) KEYBOARD_INT = false
     /\ bset (isr (snd (get_interrupt tm d1))) ISTS_RBI = false).
Proof. intros d tm. split; [exact (no_stuck_after_drain_a d tm) | exact (no_stuck_after_drain_b d tm)]. Qed.
Print Assumptions C14_no_stuck_request_after_drain.

Theorem C14_no_stuck_request_after_disable :
  forall d cmd tm,
    (bset cmd CMD_DRX = true ->
     let d1 := dstep (DWrite 11 cmd) d in
     bset (stat (pa d1)) STS_RXR = false /\ bset (ivec d1) RX_INT = false /\ bset (isr d1) ISTS_RAI = false
     /\ bset (ivec (snd (get_interrupt tm d1))) RX_INT = false
     /\ bset (isr (snd (get_interrupt tm d1))) ISTS_RAI = false)
    /\ (bset cmd CMD_DTX = true ->
     let d1 := dstep (DWrite 11 cmd) d in
     bset (stat (pa d1)) STS_TXR = false /\ bset (ivec d1) TX_INT = false /\ bset (isr d1) ISTS_TAI = false
     /\ bset (ivec (snd (get_interrupt tm d1))) TX_INT = false
     /\ bset (isr (snd (get_interrupt tm d1))) ISTS_TAI = false).
Proof.
  intros d cmd tm. split; [exact (disable_rx_withdraws_a d cmd tm) | exact (disable_tx_withdraws_a d cmd tm)].
Qed.
Print Assumptions C14_no_stuck_request_after_disable.

(* the interrupt-status bits a register access withdraws are the ones the source arm clears (`self.isr &= !X`, X
   translated from /repo/src/duart.rs on every run): a read of a receive register withdraws that receiver's bit, a
   read of the input-port-change register the input-port bit, a write of a transmit register that transmitter's
   bit; every other read arm leaves the interrupt status alone *)
Theorem C14_withdrawn_bits_are_source_bits :
  (forall off ports clr d v d',
     In (off, ports, clr) gd_read_arms -> duart_read_byte off d = ROk (v, d') ->
     isr d' = if clr =? 0 then isr d else clr8 (isr d) clr)
  /\ (forall off ports clr v d,
        In (off, ports, clr) gd_write_arms -> clr <> 0 -> isr (duart_write_byte off v d) = clr8 (isr d) clr).
Proof. split; [exact read_arm_isr | exact write_arm_isr]. Qed.
Print Assumptions C14_withdrawn_bits_are_source_bits.

(* every status / configuration / command / interrupt-status / interrupt-vector bit and every command code the model and
   these theorems use is the constant of that name in /repo/src/duart.rs (translated on every run) *)
Theorem C14_constants_are_source_constants :
  (CNF_ETX, CNF_ERX) = (gd_CNF_ETX, gd_CNF_ERX)
  /\ (STS_RXR, STS_FFL, STS_TXR, STS_TXE, STS_OER, STS_PER, STS_FER, STS_RXB)
     = (gd_STS_RXR, gd_STS_FFL, gd_STS_TXR, gd_STS_TXE, gd_STS_OER, gd_STS_PER, gd_STS_FER, gd_STS_RXB)
  /\ (CMD_ERX, CMD_DRX, CMD_ETX, CMD_DTX) = (gd_CMD_ERX, gd_CMD_DRX, gd_CMD_ETX, gd_CMD_DTX)
  /\ (ISTS_TAI, ISTS_RAI, ISTS_DBA, ISTS_TBI, ISTS_RBI, ISTS_DBB, ISTS_IPC)
     = (gd_ISTS_TAI, gd_ISTS_RAI, gd_ISTS_DBA, gd_ISTS_TBI, gd_ISTS_RBI, gd_ISTS_DBB, gd_ISTS_IPC)
  /\ (KEYBOARD_INT, MOUSE_BLANK_INT, TX_INT, RX_INT) = (gd_KEYBOARD_INT, gd_MOUSE_BLANK_INT, gd_TX_INT, gd_RX_INT)
  /\ (forall c, is_reset_rx c = (Z.land (Z.shiftr c 4) 7 =? gd_CR_RST_RX))
  /\ (forall c, is_reset_tx c = (Z.land (Z.shiftr c 4) 7 =? gd_CR_RST_TX))
  /\ (forall c, is_reset_err c = (Z.land (Z.shiftr c 4) 7 =? gd_CR_RST_ERR))
  /\ (gd_CR_RST_MR, gd_CR_RST_BRK, gd_CR_START_BRK, gd_CR_STOP_BRK) = (1, 5, 6, 7).
Proof. exact duart_constants_are_source_constants. Qed.
Print Assumptions C14_constants_are_source_constants.

(* the port helper functions the status theorems rest on are the source's: Gen/GenPort.v is their statement-by-statement
   translation from /repo/src/duart.rs, regenerated on every run *)
Theorem C14_port_helpers_are_source_functions :
  forall (A : Type) (p : port A),
    enable_tx p = g_enable_tx p /\ disable_tx p = g_disable_tx p
    /\ enable_rx p = g_enable_rx p /\ disable_rx p = g_disable_rx p
    /\ loopback p = g_loopback p /\ rx_enabled p = g_rx_enabled p.
Proof.
  intros A p. repeat apply conj; [apply enable_tx_is_source | apply disable_tx_is_source | apply enable_rx_is_source
                            | apply disable_rx_is_source | apply loopback_is_source | apply rx_enabled_is_source].
Qed.
Print Assumptions C14_port_helpers_are_source_functions.

(* the command interpreter is the source's: Gen/GenCmd.v is Duart::handle_command translated statement by statement from
   /repo/src/duart.rs on every run (per-port interrupt-status table, enable / disable arms, the command match with its
   resets and break commands), and the model's handle_command equals it for every command byte, channel and state *)
Theorem C14_command_interpreter_is_source_function :
  forall cmd pn d, handle_command cmd pn d = g_handle_command cmd pn d.
Proof. exact handle_command_is_source. Qed.
Print Assumptions C14_command_interpreter_is_source_function.
