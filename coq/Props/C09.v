(* C09  Bytes the guest transmits reach the host once, in order. *)
From Coq Require Import ZArith List Bool.
From Dmd Require Import Model.Bits Model.Fifo Model.Mem Model.Duart Proofs.FifoProofs Proofs.PortProofs Proofs.DuartProofs Proofs.DeviceRefine Gen.GenDuart Proofs.RegMapTie Model.Bus Proofs.BusDuart Gen.GenPort Proofs.PortTie Gen.GenCmd Proofs.CmdTie.
Import ListNotations.
Open Scope Z_scope.

(* TxRDY set  =>  the holding register is empty: a write made while ready never overwrites an undelivered byte *)
Theorem C09_ready_write_never_overwrites :
  forall (A : Type) (p : port A), PInv p -> bset (stat p) STS_TXR = true -> tx_hold p = None.
Proof. exact (@inv_txr). Qed.
Print Assumptions C09_ready_write_never_overwrites.

(* every history whose THR writes are gated on TxRDY, without reset-transmitter and without loop-back:
   polled bytes ++ pipeline (host queue, shift register, holding register) = written bytes, exactly *)
Theorem C09_tx_exactly_once_in_order :
  forall (A : Type) (dflt : A) (is02 : A -> bool) (ops : list (@pop A)) (p : port A) (W Q : list A),
    PInv p -> loopback p = false -> Q ++ tx_pipe p = W ->
    match tx_run is02 ops p W Q with
    | Some (p', W', Q') => Q' ++ tx_pipe p' = W'
    | None => True
    end.
Proof. exact (@tx_exactly_once_in_order). Qed.
Print Assumptions C09_tx_exactly_once_in_order.

(* the host poll returns nothing exactly when nothing is pending *)
Theorem C09_poll_none_iff_empty :
  forall (A : Type) (p : port A), fst (host_poll p) = None <-> txq p = [].
Proof. exact (@poll_none_iff_empty). Qed.
Print Assumptions C09_poll_none_iff_empty.

(* local loop-back: a completed byte is handed to the port's own receiver (appended to its FIFO / holding
   register), never to the host queue *)
Theorem C09_loopback_delivers_to_own_receiver :
  forall (A : Type) (is02 : A -> bool) (tm : Z) (kbd : bool) (p : port A) (c : A),
    PInv p -> loopback p = true -> tx_shift p = Some c -> tm >= next_tx p -> rx_enabled p = true ->
    (rx_shift p = None \/ flen (rx_fifo p) < 3) ->
    rx_held (tx_service is02 tm kbd p) = rx_held p ++ [c] /\ txq (tx_service is02 tm kbd p) = txq p
    /\ tx_shift (tx_service is02 tm kbd p) = tx_hold p.
Proof. exact (@tx_loopback_delivers). Qed.
Print Assumptions C09_loopback_delivers_to_own_receiver.

Theorem C09_loopback_never_reaches_host :
  forall (A : Type) (is02 : A -> bool) (tm : Z) (kbd : bool) (p : port A),
    PInv p -> loopback p = true ->
    let p' := tx_service is02 tm kbd p in
    PInv p' /\ txq p' = txq p /\ rxq p' = rxq p /\ conf p' = conf p /\ mode1 p' = mode1 p.
Proof. exact (@tx_service_loopback_inv). Qed.
Print Assumptions C09_loopback_never_reaches_host.

(* ---- the same at the device's register interface (Proofs/DeviceRefine.v) ---- *)

(* over every history of device operations, on either channel (b), in which the writes to that channel's transmit
   register are made while its status register shows TxRDY and the channel is neither reset (transmitter) nor put in
   loop-back: the bytes the host's polls of that channel returned, followed by what is still in its pipeline (host
   queue, shift register, holding register), are exactly the bytes written, in order -- whatever happens meanwhile
   on the other channel, the mouse inputs and the interrupt logic *)
Theorem C09_device_tx_exactly_once_in_order :
  forall (b : bool) (ops : list dop) (d : duart) (W Q : list Z),
    DInv d -> loopback (port_of b d) = false -> Q ++ tx_pipe (port_of b d) = W ->
    match dtx_run b ops d W Q with
    | Some (d', W', Q') => Q' ++ tx_pipe (port_of b d') = W'
    | None => True
    end.
Proof. exact device_tx_exactly_once_in_order. Qed.
Print Assumptions C09_device_tx_exactly_once_in_order.

(* operations that are not addressed to a channel leave its port -- queues, registers, status -- untouched *)
Theorem C09_other_channel_untouched :
  forall (b : bool) (o : dop) (d : duart), chan_op b o d = None -> port_of b (dstep o d) = port_of b d.
Proof. exact other_channel_untouched. Qed.
Print Assumptions C09_other_channel_untouched.

(* the write side of the register map is the source's: writes at offsets write_byte has no arm for change nothing, and
   an arm acts on a channel's port only if the source arm names that channel *)
Theorem C09_write_map_is_source_register_map :
  (forall off v d, ~ In (w8 off) (arm_offsets gd_write_arms) -> duart_write_byte off v d = d)
  /\ (forall off ports clr b v d,
        In (off, ports, clr) gd_write_arms -> chan_op b (DWrite off v) d <> None -> In (chan_no b) ports).
Proof. split; [exact write_undecoded | exact write_arm_channel]. Qed.
Print Assumptions C09_write_map_is_source_register_map.

(* at guest addresses, from power-on, over every interleaving of guest bus accesses (any width, address and value)
   with host enqueues and polls, service calls, interrupt polls and mouse events, the transmit-register writes of the
   channel being made while its status shows TxRDY: polled bytes ++ pipeline = written bytes, exactly and in order *)
Theorem C09_guest_tx_exactly_once_in_order :
  forall (chan : bool) (ops : list sysop) (now : Z),
    match dtx_run chan (flat_map sys_dops ops) (duart_ (bus_new now)) [] [] with
    | Some (d', W', Q') =>
      Q' ++ tx_pipe (port_of chan d') = W' /\ d' = duart_ (fold_left (fun s o => sys_step o s) ops (bus_new now))
    | None => True
    end.
Proof. exact guest_tx_exactly_once. Qed.
Print Assumptions C09_guest_tx_exactly_once_in_order.

(* enable / disable transmitter and the loop-back test are the source's functions (translated on every run) *)
Theorem C09_transmitter_helpers_are_source_functions :
  forall (A : Type) (p : port A),
    enable_tx p = g_enable_tx p /\ disable_tx p = g_disable_tx p /\ loopback p = g_loopback p.
Proof. intros A p. repeat apply conj; [apply enable_tx_is_source | apply disable_tx_is_source | apply loopback_is_source]. Qed.
Print Assumptions C09_transmitter_helpers_are_source_functions.

(* the command interpreter is the source's: Gen/GenCmd.v is Duart::handle_command translated statement by statement from
   /repo/src/duart.rs on every run (per-port interrupt-status table, enable / disable arms, the command match with its
   resets and break commands), and the model's handle_command equals it for every command byte, channel and state *)
Theorem C09_command_interpreter_is_source_function :
  forall cmd pn d, handle_command cmd pn d = g_handle_command cmd pn d.
Proof. exact handle_command_is_source. Qed.
Print Assumptions C09_command_interpreter_is_source_function.
