(* C04  Instruction decoding consumes exactly the architected bytes.
   The decoder model (Model/Decode.v) is generic in its byte source; here it runs on a plain byte string.
   First the tables, totality and the rejected encodings; then (end of file) the decoder against the architected
   encoding: decode (encode i ++ rest) = i for every well-formed instruction i of the opcode table, and
   decoding on the machine = decoding the bytes at the program counter. *)
From Coq Require Import ZArith List Bool.
From Dmd Require Import Model.Bits Model.Types Gen.GenOpcodes Model.Decode Spec.ArchOpcodes Proofs.DecodeProofs.
Open Scope Z_scope.

(* the opcode tables in the source (translated on every run) are the architected opcode map: for every first
   byte other than the 0x30 escape, and for every second byte after 0x30, the same opcodes are defined, with the
   same operand size and the same operand kinds in the same order *)
Theorem C04_opcode_tables_are_architected :
  (forall b1, 0 <= b1 < 256 -> b1 <> 48 ->
     option_map row_view (lookup_mnemonic b1 None)
     = option_map (fun p => (b1, fst p, snd p)) (arch_lookup arch_opcodes b1))
  /\ (forall b2, 0 <= b2 < 256 ->
     option_map row_view (lookup_mnemonic 48 (Some b2))
     = option_map (fun p => (12288 + b2, fst p, snd p)) (arch_lookup arch_opcodes (12288 + b2))).
Proof. split; [exact byte_table_architected | exact half_table_architected]. Qed.
Print Assumptions C04_opcode_tables_are_architected.

(* every byte string: the decoder returns an instruction of 1..26 bytes or an error; it never overruns its
   32-byte buffer (Panic) and never exhausts its recursion bound (OutOfFuel) *)
Theorem C04_decode_total_and_bounded :
  forall bs, bytes_ok bs ->
    match decode_bytes bs with
    | Ok i _ => 1 <= ilen i <= 26
    | Err _ _ => True
    | _ => False
    end.
Proof. exact decode_bytes_total. Qed.
Print Assumptions C04_decode_total_and_bounded.

(* the same for ANY byte source whose fetches do not themselves crash (the bus, in any state): *)
Theorem C04_decode_safe_any_source :
  forall St f1 f2 f4 (I : St -> Prop),
    fetch_safe St I f1 -> fetch_safe St I f2 -> fetch_safe St I f4 ->
    (forall off s, I s -> 0 <= off -> match f1 off s with Ok v _ => 0 <= v < 256 | _ => True end) ->
    forall s, I s -> dec_good St I (decode_instruction St f1 f2 f4 s).
Proof. exact decode_instruction_good. Qed.
Print Assumptions C04_decode_safe_any_source.

(* reserved descriptor bytes are rejected as illegal, in every operand position and after a prefix:
   register 11 (PSW) in register-deferred and displacement modes, reserved expanded-type codes *)
Theorem C04_reserved_descriptor_rejected :
  forall bs dt et recur len d,
    byte_at bs len = Some d -> 0 <= len < 32 -> 0 <= d < 256 -> reserved_desc d = true ->
    forall fuel, (1 <= fuel)%nat ->
    decode_descriptor unit (bfetch1 bs) (bfetch2 bs) (bfetch4 bs) fuel dt et recur len tt
    = Err (EExc IllegalOpcode) tt.
Proof. exact reserved_descriptor_rejected. Qed.
Print Assumptions C04_reserved_descriptor_rejected.

(* an expanded-type prefix followed by another prefix is rejected (no unbounded chains) *)
Theorem C04_nested_prefix_rejected :
  forall bs dt et len d d2 fuel,
    byte_at bs len = Some d -> byte_at bs (len + 1) = Some d2 -> 0 <= len < 31 ->
    0 <= d < 256 -> 0 <= d2 < 256 -> d / 16 = 14 -> d mod 16 <> 15 -> d2 / 16 = 14 -> d2 mod 16 <> 15 ->
    (2 <= fuel)%nat ->
    decode_descriptor unit (bfetch1 bs) (bfetch2 bs) (bfetch4 bs) fuel dt et false len tt
    = Err (EExc IllegalOpcode) tt.
Proof. exact nested_prefix_rejected. Qed.
Print Assumptions C04_nested_prefix_rejected.

(* non-vacuity: a concrete encoding (MOVW &0x12345678, 4(%r2)) decodes to 8 bytes *)
Example C04_example :
  match decode_bytes [132; 79; 120; 86; 52; 18; 194; 4; 112] with
  | Ok i _ => (iopcode i, ilen i, omode (op0 i), oemb (op0 i), omode (op1 i), oreg (op1 i), oemb (op1 i))
              = (132, 8, MWordImm, 305419896, MByteDisp, Some 2, 4)
  | _ => False end.
Proof. vm_compute. reflexivity. Qed.

(* ---- the decoder against the architected encoding (Proofs/EncodeProofs.v) ----
   amode / enc_mode / enc_opnd / enc_instr are the WE32100 operand syntax and its byte encoding, written down
   independently of the decoder.  On any byte string that holds the encoding of an instruction of the opcode
   table at offset 0, the decoder returns that instruction: its opcode, every operand's mode, register, constant
   (little-endian), type and (own or inherited) expanded type, unused slots cleared, and a length equal to the
   number of encoded bytes. *)
From Dmd Require Import Proofs.EncodeProofs Proofs.DecodeSim Proofs.MachKit Proofs.BusProofs Model.Bus Model.Cpu.

Theorem C04_decode_of_encoded_operand :
  forall bs t a dt et len fuel,
    wf_opnd t a -> window bs len (enc_opnd t a) -> 0 <= len -> len + Z.of_nat (length (enc_opnd t a)) <= 32 ->
    (2 <= fuel)%nat ->
    exists o, decode_descriptor unit (bfetch1 bs) (bfetch2 bs) (bfetch4 bs) fuel dt et false len tt
              = Ok (o, len + Z.of_nat (length (enc_opnd t a))) tt
              /\ opnd_is o a dt (et_after t et).
Proof. exact decode_opnd. Qed.
Print Assumptions C04_decode_of_encoded_operand.

Theorem C04_decode_of_encoded_instruction :
  forall bs mn args,
    in_table mn -> args_fit (mn_dtype mn) (mn_ops mn) args -> window bs 0 (enc_instr mn args) ->
    Z.of_nat (length (enc_instr mn args)) <= 32 ->
    exists i, decode_bytes bs = Ok i tt
      /\ iopcode i = mn_opcode mn
      /\ ilen i = Z.of_nat (length (enc_instr mn args))
      /\ exists os, ops_are (mn_dtype mn) None (mn_ops mn) args os
           /\ op0 i = nth 0 os operand_clear /\ op1 i = nth 1 os operand_clear
           /\ op2 i = nth 2 os operand_clear /\ op3 i = nth 3 os operand_clear.
Proof. exact decode_encoded_instruction. Qed.
Print Assumptions C04_decode_of_encoded_instruction.

(* decoding depends on nothing but the bytes at the program counter: on the machine (code in RAM) it is the
   decoding of the 36 bytes there, and it changes nothing; two machines with the same bytes there decode alike *)
Theorem C04_decode_is_decode_of_code_bytes :
  forall m,
    bus_wf (mbus m) -> RAMB <= R m R_PC -> R m R_PC + 36 <= RAME -> (forall a, 0 <= ramb m a < 256) ->
    same_decode (decode m) m (decode_bytes (code_bytes m 36)).
Proof. exact decode_is_decode_of_code_bytes. Qed.
Print Assumptions C04_decode_is_decode_of_code_bytes.

Theorem C04_decode_depends_only_on_code :
  forall m1 m2,
    bus_wf (mbus m1) -> bus_wf (mbus m2) ->
    RAMB <= R m1 R_PC -> R m1 R_PC + 36 <= RAME -> RAMB <= R m2 R_PC -> R m2 R_PC + 36 <= RAME ->
    (forall a, 0 <= ramb m1 a < 256) -> (forall a, 0 <= ramb m2 a < 256) ->
    code_bytes m1 36 = code_bytes m2 36 ->
    match decode m1, decode m2 with
    | Ok i m1', Ok j m2' => i = j /\ m1' = m1 /\ m2' = m2
    | Err e m1', Err e' m2' => e = e' /\ m1' = m1 /\ m2' = m2
    | _, _ => False
    end.
Proof. exact decode_depends_only_on_code. Qed.
Print Assumptions C04_decode_depends_only_on_code.

(* the model's dispatch has arms only for opcodes the source's dispatch `match` names (patterns translated from cpu.rs
   on every run): any other opcode is an illegal opcode in the model *)
From Dmd Require Import Proofs.DispatchTie.
Theorem C04_model_dispatch_within_source_arms :
  forall ir m, ~ In (iopcode ir) source_arm_opcodes -> exec ir m = Err (EExc IllegalOpcode) m.
Proof. exact exec_illegal_outside_source_arms. Qed.
Print Assumptions C04_model_dispatch_within_source_arms.
