(* C04  Instruction decoding consumes exactly the architected bytes.
   The decoder model (Model/Decode.v) is generic in its byte source; here it runs on a plain byte string.
   Missing for the full statement (the theorems below are therefore parts of it): an encoder with
   decode (encode i ++ rest) = i for every well-formed i; the operand-by-operand contents are tied to the
   architected encoding by the differential runs and the independent length/legality monitor. *)
From Coq Require Import ZArith List Bool.
From Dmd Require Import Model.Bits Model.Types Gen.GenOpcodes Model.Decode Spec.ArchOpcodes Proofs.DecodeProofs.
Open Scope Z_scope.

(* the opcode tables in the source (translated on every run) are the architected opcode map: for every first
   byte other than the 0x30 escape, and for every second byte after 0x30, the same opcodes are defined, with the
   same operand size and the same operand kinds in the same order *)
Theorem C04_opcode_tables_are_architected :
  (forall b1, 0 <= b1 < 256 -> b1 <> 48 ->
     option_map row_view (lookup_mnemonic b1 None)
     = option_map (fun p => (b1, fst p, snd p)) (arch_lookup arch_opcodes b1))
  /\ (forall b2, 0 <= b2 < 256 ->
     option_map row_view (lookup_mnemonic 48 (Some b2))
     = option_map (fun p => (12288 + b2, fst p, snd p)) (arch_lookup arch_opcodes (12288 + b2))).
Proof. split; [exact byte_table_architected | exact half_table_architected]. Qed.
Print Assumptions C04_opcode_tables_are_architected.

(* every byte string: the decoder returns an instruction of 1..26 bytes or an error; it never overruns its
   32-byte buffer (Panic) and never exhausts its recursion bound (OutOfFuel) *)
Theorem C04_decode_total_and_bounded :
  forall bs, bytes_ok bs ->
    match decode_bytes bs with
    | Ok i _ => 1 <= ilen i <= 26
    | Err _ _ => True
    | _ => False
    end.
Proof. exact decode_bytes_total. Qed.
Print Assumptions C04_decode_total_and_bounded.

(* the same for ANY byte source whose fetches do not themselves crash (the bus, in any state): *)
Theorem C04_decode_safe_any_source :
  forall St f1 f2 f4 (I : St -> Prop),
    fetch_safe St I f1 -> fetch_safe St I f2 -> fetch_safe St I f4 ->
    (forall off s, I s -> 0 <= off -> match f1 off s with Ok v _ => 0 <= v < 256 | _ => True end) ->
    forall s, I s -> dec_good St I (decode_instruction St f1 f2 f4 s).
Proof. exact decode_instruction_good. Qed.
Print Assumptions C04_decode_safe_any_source.

(* reserved descriptor bytes are rejected as illegal, in every operand position and after a prefix:
   register 11 (PSW) in register-deferred and displacement modes, reserved expanded-type codes *)
Theorem C04_reserved_descriptor_rejected :
  forall bs dt et recur len d,
    byte_at bs len = Some d -> 0 <= len < 32 -> 0 <= d < 256 -> reserved_desc d = true ->
    forall fuel, (1 <= fuel)%nat ->
    decode_descriptor unit (bfetch1 bs) (bfetch2 bs) (bfetch4 bs) fuel dt et recur len tt
    = Err (EExc IllegalOpcode) tt.
Proof. exact reserved_descriptor_rejected. Qed.
Print Assumptions C04_reserved_descriptor_rejected.

(* an expanded-type prefix followed by another prefix is rejected (no unbounded chains) *)
Theorem C04_nested_prefix_rejected :
  forall bs dt et len d d2 fuel,
    byte_at bs len = Some d -> byte_at bs (len + 1) = Some d2 -> 0 <= len < 31 ->
    0 <= d < 256 -> 0 <= d2 < 256 -> d / 16 = 14 -> d mod 16 <> 15 -> d2 / 16 = 14 -> d2 mod 16 <> 15 ->
    (2 <= fuel)%nat ->
    decode_descriptor unit (bfetch1 bs) (bfetch2 bs) (bfetch4 bs) fuel dt et false len tt
    = Err (EExc IllegalOpcode) tt.
Proof. exact nested_prefix_rejected. Qed.
Print Assumptions C04_nested_prefix_rejected.

(* non-vacuity: a concrete encoding (MOVW &0x12345678, 4(%r2)) decodes to 8 bytes *)
Example C04_example :
  match decode_bytes [132; 79; 120; 86; 52; 18; 194; 4; 112] with
  | Ok i _ => (iopcode i, ilen i, omode (op0 i), oemb (op0 i), omode (op1 i), oreg (op1 i), oemb (op1 i))
              = (132, 8, MWordImm, 305419896, MByteDisp, Some 2, 4)
  | _ => False end.
Proof. vm_compute. reflexivity. Qed.
