(* C20  Pointer position and button events are visible to the guest as reported. *)
From Coq Require Import ZArith List Bool.
From Dmd Require Import Model.Bits Model.Fifo Model.Mem Model.Mouse Model.Duart Model.Bus
     Proofs.BusProofs Proofs.DuartProofs Proofs.DuartProofs2 Gen.GenDuart Gen.GenMouse Proofs.MouseTie.
Open Scope Z_scope.

(* halfword reads of the mouse registers return the coordinates last reported: vertical first, horizontal second *)
Theorem C20_mouse_regs_latest :
  forall x y b,
    let b' := bus_mouse_move x y b in
    bus_read_half 4194304 b' = Ok (w16 y) b' /\ bus_read_half 4194306 b' = Ok (w16 x) b'.
Proof. intros x y b. split; reflexivity. Qed.
Print Assumptions C20_mouse_regs_latest.

(* nothing but mouse_move changes the coordinates: every bus access leaves the mouse as it was *)
Theorem C20_mouse_regs_stable :
  forall a v b d, get_device a = Some d -> d <> DMouse ->
    (match bus_write_word a v b with Ok _ b' | Err _ b' => mouse_ b' = mouse_ b | _ => True end)
    /\ (match bus_write_half a v b with Ok _ b' | Err _ b' => mouse_ b' = mouse_ b | _ => True end)
    /\ (match bus_write_byte a v b with Ok _ b' | Err _ b' => mouse_ b' = mouse_ b | _ => True end)
    /\ (match bus_read_byte a b with Ok _ b' | Err _ b' => mouse_ b' = mouse_ b | _ => True end).
Proof.
  intros a v b d H N.
  pose proof (write_word_frame a v b d H) as F1. pose proof (write_half_frame a v b d H) as F2.
  pose proof (write_byte_frame a v b d H) as F3. pose proof (read_byte_frame a b d H) as F4.
  unfold res_frame, same_except in *.
  repeat split.
  - destruct (bus_write_word a v b); auto; apply F1; exact N.
  - destruct (bus_write_half a v b); auto; apply F2; exact N.
  - destruct (bus_write_byte a v b); auto; apply F3; exact N.
  - destruct (bus_read_byte a b); auto; apply F4; exact N.
Qed.
Print Assumptions C20_mouse_regs_stable.

Theorem C20_button_event_raises_request :
  forall d b,
    bset (ivec (mouse_down d b)) MOUSE_BLANK_INT = true /\ bset (isr (mouse_down d b)) ISTS_IPC = true
    /\ bset (ivec (mouse_up d b)) MOUSE_BLANK_INT = true /\ bset (isr (mouse_up d b)) ISTS_IPC = true.
Proof. exact button_event_raises_request. Qed.
Print Assumptions C20_button_event_raises_request.

Theorem C20_button_levels :
  forall d b, b = 0 \/ b = 1 \/ b = 2 ->
    bset (inprt (mouse_down d b)) (button_bit b) = false
    /\ bset (ipcr (mouse_down d b)) (change_bit b) = true
    /\ bset (inprt (mouse_up d b)) (button_bit b) = true
    /\ bset (ipcr (mouse_up d b)) (change_bit b) = true.
Proof. exact button_levels. Qed.
Print Assumptions C20_button_levels.

Theorem C20_other_buttons_only_request :
  forall d b, b <> 0 -> b <> 1 -> b <> 2 ->
    ipcr (mouse_down d b) = 0 /\ ipcr (mouse_up d b) = 0
    /\ inprt (mouse_down d b) = Z.lor (inprt d) 11 /\ inprt (mouse_up d b) = Z.lor (inprt d) 11
    /\ pa (mouse_down d b) = pa d /\ pb (mouse_down d b) = pb d /\ pa (mouse_up d b) = pa d /\ pb (mouse_up d b) = pb d.
Proof. exact other_buttons_only_request. Qed.
Print Assumptions C20_other_buttons_only_request.

Theorem C20_request_until_ipcr_read :
  forall o d, bset (ivec d) MOUSE_BLANK_INT = true ->
    (forall off, o = DRead off -> w8 off <> 19) ->
    bset (ivec (dstep o d)) MOUSE_BLANK_INT = true.
Proof. exact request_until_ipcr_read. Qed.
Print Assumptions C20_request_until_ipcr_read.

(* the button-event functions the theorems above speak about are Duart::mouse_down / Duart::mouse_up as they stand in
   /repo/src/duart.rs: Gen/GenMouse.v is their statement-by-statement translation, regenerated on every run *)
Theorem C20_button_events_are_source_functions :
  (forall d b, mouse_down d b = g_mouse_down d b) /\ (forall d b, mouse_up d b = g_mouse_up d b).
Proof. split; [exact mouse_down_is_source | exact mouse_up_is_source]. Qed.
Print Assumptions C20_button_events_are_source_functions.
