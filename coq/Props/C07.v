(* C07  Interrupts are masked by priority and transparent to the interrupted code. *)
From Coq Require Import ZArith List Bool.
From Dmd Require Import Model.Bits Model.Types Model.Mem Model.Duart Model.Bus Model.Decode Model.Cpu.
From Dmd Require Import Gen.GenConsts Proofs.BusProofs Proofs.MachKit Proofs.InterruptProofs.
Open Scope Z_scope.

(* one step = service the devices, poll the request ONCE before the instruction is decoded (an interrupt is only
   ever taken at an instruction boundary), take it exactly when the processor level is below the request's level,
   then decode and execute *)
Theorem C07_delivery_only_at_boundary_and_below_level :
  forall now m,
    dispatch now m =
    let b := bus_service now (mbus m) in
    let (o, b) := bus_get_interrupts now b in
    let m := with_bus m b in
    bind (match o with
          | Some val => if cpu_ipl m <? irq_level val then on_interrupt (Z.land (not8 val) 63) m else Ok tt m
          | None => Ok tt m
          end) (fun _ m => bind (decode m) (fun ir m => exec ir m)).
Proof. exact dispatch_structure. Qed.
Print Assumptions C07_delivery_only_at_boundary_and_below_level.

(* the level table in the source (translated on every run) is the documented one: no source bit -> never;
   only the low three request bits -> level 14; any of bits 3-5 -> level 15 *)
Theorem C07_priority_levels :
  IPL_TABLE = g_IPL_TABLE
  /\ forall v, 0 <= v < 256 -> irq_level v = if v mod 64 =? 0 then 0 else if v mod 64 <? 8 then 14 else 15.
Proof. split; [exact ipl_table_is_source | exact irq_level_spec]. Qed.
Print Assumptions C07_priority_levels.

Theorem C07_masked_request_not_delivered :
  forall now m o b,
    bus_get_interrupts now (bus_service now (mbus m)) = (o, b) ->
    (match o with Some val => irq_level val <= cpu_ipl (with_bus m b) | None => True end) ->
    dispatch now m = bind (decode (with_bus m b)) (fun ir m => exec ir m).
Proof. exact no_interrupt_when_masked. Qed.
Print Assumptions C07_masked_request_not_delivered.

Theorem C07_unmasked_request_delivered :
  forall now m val b,
    bus_get_interrupts now (bus_service now (mbus m)) = (Some val, b) ->
    cpu_ipl (with_bus m b) < irq_level val ->
    dispatch now m = bind (on_interrupt (Z.land (not8 val) 63) (with_bus m b))
                          (fun _ m => bind (decode m) (fun ir m => exec ir m)).
Proof. exact interrupt_when_unmasked. Qed.
Print Assumptions C07_unmasked_request_delivered.

(* delivery: old control-block pointer stacked on the interrupt stack (ISP + 4); PC, PSW and SP stored in the old
   control block at +4, +0, +8; PCBP, PSW, PC, SP loaded from the block the vector table names; r0-r10 untouched;
   nothing else in RAM written.  (Handler block without the R and I flags.) *)
Theorem C07_interrupt_entry :
  forall v m,
    bus_wf (mbus m) -> 0 <= v -> in_rom_w (140 + 4 * v) ->
    let N := romw m (140 + 4 * v) in
    let P := R m R_PCBP in
    let S := R m R_ISP in
    in_ram_w N -> in_ram_w (N + 4) -> in_ram_w (N + 8) ->
    in_ram_w P -> in_ram_w (P + 4) -> in_ram_w (P + 8) -> in_ram_w S -> S + 4 < 4294967296 ->
    (P + 12 <= N \/ N + 12 <= P) -> (S + 4 <= P \/ P + 12 <= S) -> (S + 4 <= N \/ N + 12 <= S) ->
    let H := ldw m N in
    Z.testbit H 8 = false -> Z.testbit H 7 = false ->
    exists m1, on_interrupt v m = Ok tt m1
      /\ bus_wf (mbus m1)
      /\ R m1 R_ISP = S + 4 /\ R m1 R_PCBP = N /\ PSW m1 = handler_psw H
      /\ R m1 R_PC = ldw m (N + 4) /\ R m1 R_SP = ldw m (N + 8)
      /\ (forall i, 0 <= i <= 10 -> R m1 i = R m i)
      /\ ldw m1 S = w32 P /\ ldw m1 P = w32 (saved_psw (PSW m) H)
      /\ ldw m1 (P + 4) = w32 (R m R_PC) /\ ldw m1 (P + 8) = w32 (R m R_SP)
      /\ (forall a, RAMB <= a -> (a < S \/ S + 4 <= a) -> (a < P \/ P + 12 <= a) -> ramb m1 a = ramb m a).
Proof. exact on_interrupt_effect. Qed.
Print Assumptions C07_interrupt_entry.

(* RETPS from kernel level: pops the control-block pointer, reloads PCBP, PSW, PC, SP from that block *)
Theorem C07_retps_effect :
  forall ir m,
    iopcode ir = 12488 -> is_kernel m = true -> bus_wf (mbus m) ->
    4 <= R m R_ISP < 4294967296 -> in_ram_w (R m R_ISP - 4) ->
    let P := ldw m (R m R_ISP - 4) in
    in_ram_w P -> in_ram_w (P + 4) -> in_ram_w (P + 8) ->
    let Q := ldw m P in
    Z.testbit Q 8 = false -> Z.testbit Q 7 = false ->
    exists m', exec ir m = Ok 0 m' /\ mbus m' = mbus m
      /\ R m' R_ISP = R m R_ISP - 4 /\ R m' R_PCBP = P /\ PSW m' = clr32 Q F_TM
      /\ R m' R_PC = ldw m (P + 4) /\ R m' R_SP = ldw m (P + 8)
      /\ (forall i, 0 <= i <= 10 -> R m' i = R m i).
Proof. exact retps_effect. Qed.
Print Assumptions C07_retps_effect.

(* transparency: interrupt, then the handler's RETPS -- PC, SP, r0-r10 (incl. FP, AP), PCBP, ISP, condition codes
   (21-18), priority level (16-13), execution / previous level (12-9) and the I bit are exactly as before, and
   only the old control block and the interrupt-stack slot were written *)
Theorem C07_interrupt_retps_transparent :
  forall ir v m,
    iopcode ir = 12488 ->
    bus_wf (mbus m) -> 0 <= v -> in_rom_w (140 + 4 * v) ->
    let N := romw m (140 + 4 * v) in
    let P := R m R_PCBP in
    let S := R m R_ISP in
    in_ram_w N -> in_ram_w (N + 4) -> in_ram_w (N + 8) ->
    in_ram_w P -> in_ram_w (P + 4) -> in_ram_w (P + 8) -> in_ram_w S -> S + 4 < 4294967296 ->
    (P + 12 <= N \/ N + 12 <= P) -> (S + 4 <= P \/ P + 12 <= S) -> (S + 4 <= N \/ N + 12 <= S) ->
    let H := ldw m N in
    0 <= H -> Z.testbit H 8 = false -> Z.testbit H 7 = false -> Z.testbit H 11 = false -> Z.testbit H 12 = false ->
    Z.testbit (PSW m) 7 = false ->
    0 <= R m R_PC < 4294967296 -> 0 <= R m R_SP < 4294967296 ->
    exists m1 m2,
      on_interrupt v m = Ok tt m1 /\ exec ir m1 = Ok 0 m2
      /\ R m2 R_PC = R m R_PC /\ R m2 R_SP = R m R_SP /\ R m2 R_PCBP = P /\ R m2 R_ISP = S
      /\ (forall i, 0 <= i <= 10 -> R m2 i = R m i)
      /\ (forall k, In k [21; 20; 19; 18; 16; 15; 14; 13; 12; 11; 10; 9; 7] -> Z.testbit (PSW m2) k = Z.testbit (PSW m) k)
      /\ (forall a, RAMB <= a -> (a < S \/ S + 4 <= a) -> (a < P \/ P + 12 <= a) -> ramb m2 a = ramb m a).
Proof. exact interrupt_retps_transparent. Qed.
Print Assumptions C07_interrupt_retps_transparent.

(* process-switch and MMU-control instructions outside kernel level: refused, nothing changes *)
Theorem C07_privileged_refused :
  forall ir m, is_kernel m = false ->
    (iopcode ir = 12460 \/ iopcode ir = 12488 \/ iopcode ir = 12301 \/ iopcode ir = 12307) ->
    exec ir m = Err (EExc PrivilegedOpcode) m.
Proof.
  intros ir m K [H|[H|[H|H]]];
    [exact (callps_refused ir m H K) | exact (retps_refused ir m H K)
     | exact (enbvjmp_refused ir m H K) | exact (disvjmp_refused ir m H K)].
Qed.
Print Assumptions C07_privileged_refused.

Theorem C07_kernel_level_is_cm_zero :
  forall m, 0 <= PSW m -> is_kernel m = negb (Z.testbit (PSW m) 11) && negb (Z.testbit (PSW m) 12).
Proof. exact is_kernel_spec. Qed.
Print Assumptions C07_kernel_level_is_cm_zero.

(* the same for a handler control block WITH the I flag (initial context: PCBP moves 12 bytes on, I is cleared in
   the handler's PSW): delivery + RETPS is transparent to the interrupted program *)
From Dmd Require Import Proofs.InterruptProofsI.
Theorem C07_interrupt_retps_transparent_I_block :
  forall ir v m,
    iopcode ir = 12488 ->
    bus_wf (mbus m) -> 0 <= v -> in_rom_w (140 + 4 * v) ->
    let N := romw m (140 + 4 * v) in
    let P := R m R_PCBP in
    let S := R m R_ISP in
    in_ram_w N -> in_ram_w (N + 4) -> in_ram_w (N + 8) ->
    in_ram_w P -> in_ram_w (P + 4) -> in_ram_w (P + 8) -> in_ram_w S -> S + 4 < 4294967296 ->
    (P + 12 <= N \/ N + 12 <= P) -> (S + 4 <= P \/ P + 12 <= S) -> (S + 4 <= N \/ N + 12 <= S) ->
    let H := ldw m N in
    0 <= H -> Z.testbit H 8 = false -> Z.testbit H 7 = true -> Z.testbit H 11 = false -> Z.testbit H 12 = false ->
    Z.testbit (PSW m) 7 = false ->
    0 <= R m R_PC < 4294967296 -> 0 <= R m R_SP < 4294967296 ->
    exists m1 m2,
      on_interrupt v m = Ok tt m1 /\ R m1 R_PCBP = N + 12 /\ exec ir m1 = Ok 0 m2
      /\ R m2 R_PC = R m R_PC /\ R m2 R_SP = R m R_SP /\ R m2 R_PCBP = P /\ R m2 R_ISP = S
      /\ (forall i, 0 <= i <= 10 -> R m2 i = R m i)
      /\ (forall k, In k [21; 20; 19; 18; 16; 15; 14; 13; 12; 11; 10; 9; 7] -> Z.testbit (PSW m2) k = Z.testbit (PSW m) k)
      /\ (forall a, RAMB <= a -> (a < S \/ S + 4 <= a) -> (a < P \/ P + 12 <= a) -> ramb m2 a = ramb m a).
Proof. exact interrupt_retps_transparent_I. Qed.
Print Assumptions C07_interrupt_retps_transparent_I_block.

(* CALLPS followed by RETPS: the caller continues after the CALLPS with everything else as it was *)
Theorem C07_callps_retps_transparent :
  forall irc irr m,
    iopcode irc = 12460 -> iopcode irr = 12488 -> is_kernel m = true ->
    bus_wf (mbus m) ->
    let N := R m 0 in
    let P := R m R_PCBP in
    let S := R m R_ISP in
    in_ram_w N -> in_ram_w (N + 4) -> in_ram_w (N + 8) ->
    in_ram_w P -> in_ram_w (P + 4) -> in_ram_w (P + 8) -> in_ram_w S -> S + 4 < 4294967296 ->
    (P + 12 <= N \/ N + 12 <= P) -> (S + 4 <= P \/ P + 12 <= S) -> (S + 4 <= N \/ N + 12 <= S) ->
    let H := ldw m N in
    0 <= H -> Z.testbit H 8 = false -> Z.testbit H 7 = false -> Z.testbit H 11 = false -> Z.testbit H 12 = false ->
    Z.testbit (PSW m) 7 = false ->
    0 <= R m R_SP < 4294967296 ->
    exists m1 m2,
      exec irc m = Ok 0 m1 /\ exec irr m1 = Ok 0 m2
      /\ R m2 R_PC = add32 (R m R_PC) 2 /\ R m2 R_SP = R m R_SP /\ R m2 R_PCBP = P /\ R m2 R_ISP = S
      /\ (forall i, 0 <= i <= 10 -> R m2 i = R m i)
      /\ (forall k, In k [21; 20; 19; 18; 16; 15; 14; 13; 12; 11; 10; 9; 7] -> Z.testbit (PSW m2) k = Z.testbit (PSW m) k)
      /\ (forall a, RAMB <= a -> (a < S \/ S + 4 <= a) -> (a < P \/ P + 12 <= a) -> ramb m2 a = ramb m a).
Proof. exact callps_retps_transparent. Qed.
Print Assumptions C07_callps_retps_transparent.

(* the same through a handler control block WITH the R flag (register save area): interrupt entry saves AP, FP and
   r0-r8 in the interrupted process's control block and uses r0-r2 and FP as scratch, RETPS reloads them; the
   block-move lists of both blocks are empty (lists with entries: correspondence + mon_c07).  Registers hold 32-bit
   values.  The R bit of the PSW itself is not claimed (it is set from the handler block's PSW). *)
From Dmd Require Import Proofs.InterruptProofsR.
Theorem C07_interrupt_retps_transparent_R_block :
  forall ir v m,
    iopcode ir = 12488 ->
    bus_wf (mbus m) -> 0 <= v -> in_rom_w (140 + 4 * v) ->
    let N := romw m (140 + 4 * v) in
    let P := R m R_PCBP in
    let S := R m R_ISP in
    pcb_in_ram N -> in_ram_w (N + 64) -> ldw m (N + 64) = 0 ->
    pcb_in_ram P -> in_ram_w (P + 64) -> ldw m (P + 64) = 0 ->
    in_ram_w S -> S + 4 < 4294967296 ->
    (P + 68 <= N \/ N + 68 <= P) -> (S + 4 <= P \/ P + 68 <= S) -> (S + 4 <= N \/ N + 68 <= S) ->
    let H := ldw m N in
    0 <= H -> Z.testbit H 8 = true -> Z.testbit H 7 = false -> Z.testbit H 11 = false -> Z.testbit H 12 = false ->
    Z.testbit (PSW m) 7 = false ->
    (forall i, 0 <= i <= 15 -> 0 <= R m i < 4294967296) ->
    exists m1 m2,
      on_interrupt v m = Ok tt m1 /\ exec ir m1 = Ok 0 m2
      /\ R m2 R_PC = R m R_PC /\ R m2 R_SP = R m R_SP /\ R m2 R_PCBP = P /\ R m2 R_ISP = S
      /\ (forall i, 0 <= i <= 10 -> R m2 i = R m i)
      /\ (forall k, In k [21; 20; 19; 18; 16; 15; 14; 13; 12; 11; 10; 9; 7] -> Z.testbit (PSW m2) k = Z.testbit (PSW m) k)
      /\ (forall a, RAMB <= a -> (a < S \/ S + 4 <= a) -> (a < P \/ P + 64 <= a) -> ramb m2 a = ramb m a).
Proof. exact interrupt_retps_transparent_R. Qed.
Print Assumptions C07_interrupt_retps_transparent_R_block.

(* what entry through an R block stores, and what RETPS through an R block loads *)
Theorem C07_R_block_save_and_restore :
  (forall v m N P S H,
     bus_wf (mbus m) -> 0 <= v -> in_rom_w (140 + 4 * v) ->
     romw m (140 + 4 * v) = N -> R m R_PCBP = P -> R m R_ISP = S -> ldw m N = H ->
     pcb_in_ram N -> in_ram_w (N + 64) -> ldw m (N + 64) = 0 ->
     pcb_in_ram P -> in_ram_w S -> S + 4 < 4294967296 ->
     (P + 64 <= N \/ N + 68 <= P) -> (S + 4 <= P \/ P + 64 <= S) -> (S + 4 <= N \/ N + 68 <= S) ->
     Z.testbit H 8 = true -> Z.testbit H 7 = false ->
     exists m1, on_interrupt v m = Ok tt m1
       /\ bus_wf (mbus m1)
       /\ R m1 R_ISP = S + 4 /\ R m1 R_PCBP = N /\ PSW m1 = handler_psw H
       /\ R m1 R_PC = ldw m (N + 4) /\ R m1 R_SP = ldw m (N + 8)
       /\ ldw m1 S = w32 P /\ ldw m1 P = w32 (saved_psw (PSW m) H)
       /\ ldw m1 (P + 4) = w32 (R m R_PC) /\ ldw m1 (P + 8) = w32 (R m R_SP)
       /\ ldw m1 (P + 20) = w32 (R m R_AP) /\ ldw m1 (P + 24) = w32 (R m R_FP)
       /\ (forall k, 0 <= k <= 8 -> ldw m1 (P + 28 + 4 * k) = w32 (R m k))
       /\ (forall a, RAMB <= a -> (a < S \/ S + 4 <= a) -> (a < P \/ P + 64 <= a) -> ramb m1 a = ramb m a))
  /\ (forall ir m,
        iopcode ir = 12488 -> is_kernel m = true -> bus_wf (mbus m) ->
        4 <= R m R_ISP < 4294967296 -> in_ram_w (R m R_ISP - 4) ->
        let P := ldw m (R m R_ISP - 4) in
        pcb_in_ram P -> in_ram_w (P + 64) -> ldw m (P + 64) = 0 ->
        let Q := ldw m P in
        Z.testbit Q 8 = true -> Z.testbit Q 7 = false ->
        exists m', exec ir m = Ok 0 m' /\ mbus m' = mbus m
          /\ R m' R_ISP = R m R_ISP - 4 /\ R m' R_PCBP = P /\ PSW m' = clr32 Q F_TM
          /\ R m' R_PC = ldw m (P + 4) /\ R m' R_SP = ldw m (P + 8)
          /\ R m' R_FP = ldw m (P + 24) /\ R m' R_AP = ldw m (P + 20)
          /\ (forall k, 0 <= k <= 8 -> R m' k = ldw m (P + 28 + 4 * k))).
Proof. split; [exact on_interrupt_effect_gen_R | exact retps_effect_R]. Qed.
Print Assumptions C07_R_block_save_and_restore.

(* ... and with R and I together (the handler runs with PCBP 12 bytes on; the empty block-move list is the one 64 bytes
   behind the moved pointer) *)
Theorem C07_interrupt_retps_transparent_RI_block :
  forall ir v m,
    iopcode ir = 12488 ->
    bus_wf (mbus m) -> 0 <= v -> in_rom_w (140 + 4 * v) ->
    let N := romw m (140 + 4 * v) in
    let P := R m R_PCBP in
    let S := R m R_ISP in
    pcb_in_ram N -> in_ram_w (N + 76) -> ldw m (N + 76) = 0 ->
    pcb_in_ram P -> in_ram_w (P + 64) -> ldw m (P + 64) = 0 ->
    in_ram_w S -> S + 4 < 4294967296 ->
    (P + 68 <= N \/ N + 80 <= P) -> (S + 4 <= P \/ P + 68 <= S) -> (S + 4 <= N \/ N + 80 <= S) ->
    let H := ldw m N in
    0 <= H -> Z.testbit H 8 = true -> Z.testbit H 7 = true -> Z.testbit H 11 = false -> Z.testbit H 12 = false ->
    Z.testbit (PSW m) 7 = false ->
    (forall i, 0 <= i <= 15 -> 0 <= R m i < 4294967296) ->
    exists m1 m2,
      on_interrupt v m = Ok tt m1 /\ R m1 R_PCBP = N + 12 /\ exec ir m1 = Ok 0 m2
      /\ R m2 R_PC = R m R_PC /\ R m2 R_SP = R m R_SP /\ R m2 R_PCBP = P /\ R m2 R_ISP = S
      /\ (forall i, 0 <= i <= 10 -> R m2 i = R m i)
      /\ (forall k, In k [21; 20; 19; 18; 16; 15; 14; 13; 12; 11; 10; 9; 7] -> Z.testbit (PSW m2) k = Z.testbit (PSW m) k)
      /\ (forall a, RAMB <= a -> (a < S \/ S + 4 <= a) -> (a < P \/ P + 64 <= a) -> ramb m2 a = ramb m a).
Proof. exact interrupt_retps_transparent_RI. Qed.
Print Assumptions C07_interrupt_retps_transparent_RI_block.

(* CALLPS into a control block with the R flag (kernel level, no I, empty block-move lists) whose code returns at
   once with RETPS: the caller continues after the CALLPS with everything else as it was *)
Theorem C07_callps_retps_transparent_R_block :
  forall irc irr m,
    iopcode irc = 12460 -> iopcode irr = 12488 -> is_kernel m = true ->
    bus_wf (mbus m) ->
    let N := R m 0 in
    let P := R m R_PCBP in
    let S := R m R_ISP in
    pcb_in_ram N -> in_ram_w (N + 64) -> ldw m (N + 64) = 0 ->
    pcb_in_ram P -> in_ram_w (P + 64) -> ldw m (P + 64) = 0 ->
    in_ram_w S -> S + 4 < 4294967296 ->
    (P + 68 <= N \/ N + 68 <= P) -> (S + 4 <= P \/ P + 68 <= S) -> (S + 4 <= N \/ N + 68 <= S) ->
    let H := ldw m N in
    0 <= H -> Z.testbit H 8 = true -> Z.testbit H 7 = false -> Z.testbit H 11 = false -> Z.testbit H 12 = false ->
    Z.testbit (PSW m) 7 = false ->
    (forall i, 0 <= i <= 15 -> 0 <= R m i < 4294967296) ->
    exists m1 m2,
      exec irc m = Ok 0 m1 /\ exec irr m1 = Ok 0 m2
      /\ R m2 R_PC = add32 (R m R_PC) 2 /\ R m2 R_SP = R m R_SP /\ R m2 R_PCBP = P /\ R m2 R_ISP = S
      /\ (forall i, 0 <= i <= 10 -> R m2 i = R m i)
      /\ (forall k, In k [21; 20; 19; 18; 16; 15; 14; 13; 12; 11; 10; 9; 7] -> Z.testbit (PSW m2) k = Z.testbit (PSW m) k)
      /\ (forall a, RAMB <= a -> (a < S \/ S + 4 <= a) -> (a < P \/ P + 64 <= a) -> ramb m2 a = ramb m a).
Proof. exact callps_retps_transparent_R. Qed.
Print Assumptions C07_callps_retps_transparent_R_block.

(* the hypotheses of the R-block theorems are satisfiable: a concrete machine (vector 1 -> handler block at 0x748000 with
   R set and priority level 15, interrupted process's block at 0x740000, interrupt stack at 0x741000) meets all of them *)
Example C07_R_block_premises_satisfiable :
  let m := ex_m in let v := 1 in
  bus_wf (mbus m) /\ 0 <= v /\ in_rom_w (140 + 4 * v)
  /\ (let N := romw m (140 + 4 * v) in
      let P := R m R_PCBP in
      let S := R m R_ISP in
      pcb_in_ram N /\ in_ram_w (N + 64) /\ ldw m (N + 64) = 0
      /\ pcb_in_ram P /\ in_ram_w (P + 64) /\ ldw m (P + 64) = 0
      /\ in_ram_w S /\ S + 4 < 4294967296
      /\ (P + 68 <= N \/ N + 68 <= P) /\ (S + 4 <= P \/ P + 68 <= S) /\ (S + 4 <= N \/ N + 68 <= S)
      /\ (let H := ldw m N in
          0 <= H /\ Z.testbit H 8 = true /\ Z.testbit H 7 = false /\ Z.testbit H 11 = false /\ Z.testbit H 12 = false))
  /\ Z.testbit (PSW m) 7 = false
  /\ (forall i, 0 <= i <= 15 -> 0 <= R m i < 4294967296).
Proof. exact R_block_premises. Qed.
