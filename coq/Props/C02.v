(* C02  Integer instructions compute the architected result and condition codes.
   Statements about the arithmetic each dispatch arm performs; which arm an opcode takes; the fault cases. *)
From Coq Require Import ZArith List Bool.
From Dmd Require Import Model.Bits Model.Types Model.Bus Model.Cpu Proofs.AluProofs.
Open Scope Z_scope.

(* results are the mathematical sum / difference / product modulo 2^32, and their low 8 / 16 bits (what a
   byte / halfword destination keeps) are the result modulo 2^8 / 2^16 *)
Theorem C02_results_are_modular :
  forall a b,
    w32 (a + b) = (a + b) mod 2 ^ 32 /\ w32 (a - b) = (a - b) mod 2 ^ 32 /\ w32 (a * b) = (a * b) mod 2 ^ 32
    /\ w8 (w32 (a + b)) = (a + b) mod 256 /\ w16 (w32 (a + b)) = (a + b) mod 65536
    /\ w8 (w32 (a - b)) = (a - b) mod 256 /\ w16 (w32 (a - b)) = (a - b) mod 65536
    /\ w8 (w32 (a * b)) = (a * b) mod 256 /\ w16 (w32 (a * b)) = (a * b) mod 65536.
Proof.
  intros a b. pose proof (low_bits_of_sum a b). pose proof (low_bits_of_diff a b). pose proof (low_bits_of_prod a b).
  repeat split; try reflexivity; tauto.
Qed.
Print Assumptions C02_results_are_modular.

(* carry of word and byte additions = unsigned carry out *)
Theorem C02_add_carry :
  forall a b,
    (0 <= a < 2 ^ 32 -> 0 <= b < 2 ^ 32 -> ((a + b >? 4294967295) = true <-> 2 ^ 32 <= a + b))
    /\ (0 <= a < 256 -> 0 <= b < 256 -> ((a + b >? 255) = true <-> 256 <= a + b)).
Proof. intros a b. split; [exact (add_carry_word a b) | exact (add_carry_byte a b)]. Qed.
Print Assumptions C02_add_carry.

(* signed overflow of word additions: the (a ^ ~b) & (a ^ r) & 0x80000000 test <-> the signed sum leaves [-2^31, 2^31) *)
Theorem C02_add_overflow_word :
  forall a b, 0 <= a < 4294967296 -> 0 <= b < 4294967296 ->
    bset (Z.land (Z.lxor a (not32 b)) (Z.lxor a (w32 (a + b)))) 2147483648
    = negb ((-2147483648 <=? s32 a + s32 b) && (s32 a + s32 b <? 2147483648)).
Proof. exact add_overflow_word. Qed.
Print Assumptions C02_add_overflow_word.

(* borrow of subtract / compare: C = (subtrahend > minuend) as unsigned numbers; sign extension of halfword
   operands preserves the unsigned order, so the test on the extended values is the halfword borrow *)
Theorem C02_sub_borrow :
  forall a b, ((b >? a) = true <-> a - b < 0) /\ (sext16 b >? sext16 a) = (w16 b >? w16 a).
Proof. intros a b. split; [exact (sub_borrow_word a b) | exact (sext16_unsigned_order a b)]. Qed.
Print Assumptions C02_sub_borrow.

(* compare: equality and unsigned order at every size, signed order at word and halfword size *)
Theorem C02_cmp_flags :
  forall a b,
    (0 <= a < 2 ^ 32 -> 0 <= b < 2 ^ 32 ->
       ((b =? a) = true <-> b = a) /\ ((s32 b <? s32 a) = true <-> s32 b < s32 a) /\ ((b <? a) = true <-> b < a))
    /\ (((w16 b =? w16 a) = true <-> b mod 65536 = a mod 65536)
        /\ ((s16 b <? s16 a) = true <-> s16 b < s16 a) /\ ((w16 b <? w16 a) = true <-> b mod 65536 < a mod 65536))
    /\ (((w8 b =? w8 a) = true <-> b mod 256 = a mod 256) /\ ((w8 b <? w8 a) = true <-> b mod 256 < a mod 256)).
Proof. intros a b. split; [exact (cmp_word a b) | split; [exact (cmp_half a b) | exact (cmp_byte a b)]]. Qed.
Print Assumptions C02_cmp_flags.

(* division and remainder: truncating signed quotient / remainder for word and halfword, unsigned for byte *)
Theorem C02_div_mod_results :
  forall a b q,
    (div_val a b DWord = Some q -> s32 a <> 0 /\ q = w32 (Z.quot (s32 b) (s32 a)))
    /\ (mod_val a b DWord = Some q -> s32 a <> 0 /\ q = w32 (Z.rem (s32 b) (s32 a)))
    /\ (div_val a b DHalf = Some q -> s16 a <> 0 /\ q = sext16 (w16 (Z.quot (s16 b) (s16 a))))
    /\ (div_val a b DByte = Some q -> w8 a <> 0 /\ q = w8 b / w8 a).
Proof.
  intros a b q. split; [exact (div_word_spec a b q)|]. split; [exact (mod_word_spec a b q)|].
  split; [exact (div_half_spec a b q) | exact (div_byte_spec a b q)].
Qed.
Print Assumptions C02_div_mod_results.

Theorem C02_min_div_minus_one_wraps :
  div_val 4294967295 2147483648 DWord = Some 2147483648
  /\ mod_val 4294967295 2147483648 DWord = Some 0
  /\ div_val 4294967295 4294934528 DHalf = Some 4294934528
  /\ mod_val 4294967295 4294934528 DHalf = Some 0.
Proof. exact min_div_minus_one_wraps. Qed.
Print Assumptions C02_min_div_minus_one_wraps.

(* division / remainder by zero: an integer-zero-divide fault raised before anything is written *)
Theorem C02_div_by_zero_faults :
  forall ir m dst oa ob m1 m2 b,
    read_op ir 0 m = Ok 0 m1 -> read_op ir 1 m1 = Ok b m2 ->
    div_arm ir dst oa ob m = Err (EExc IntegerZeroDivide) m2 /\ mod_arm ir dst m = Err (EExc IntegerZeroDivide) m2.
Proof. exact div_by_zero_faults. Qed.
Print Assumptions C02_div_by_zero_faults.

(* shifts: logical left = multiply modulo 2^32, logical right = floor division, arithmetic right = floor
   division of the signed value, for every count *)
Theorem C02_shift_results :
  forall a n, 0 <= n ->
    w32 (Z.shiftl a n) = (a * 2 ^ n) mod 2 ^ 32 /\ Z.shiftr a n = a / 2 ^ n
    /\ w32 (Z.shiftr (s32 a) n) = (s32 a / 2 ^ n) mod 2 ^ 32
    /\ w32 (Z.shiftr (s16 a) n) = (s16 a / 2 ^ n) mod 2 ^ 32
    /\ Z.shiftr (w8 a) n = (a mod 256) / 2 ^ n.
Proof.
  intros a n H. repeat split.
  - exact (lls_spec a n H). - exact (lrs_spec a n H). - exact (ars_word_spec a n H).
  - exact (ars_half_spec a n H). - exact (ars_byte_unsigned_spec a n H).
Qed.
Print Assumptions C02_shift_results.

(* which computation each opcode performs (2- and 3-operand forms; opcode numbers are architected) *)
Theorem C02_opcode_arms :
  forall ir m,
    (iopcode ir = 184 \/ iopcode ir = 186 \/ iopcode ir = 187 -> exec ir m = alu_std ir Z.land 1 m)
    /\ (iopcode ir = 248 \/ iopcode ir = 250 \/ iopcode ir = 251 -> exec ir m = alu_std ir Z.land 2 m)
    /\ (iopcode ir = 176 \/ iopcode ir = 178 \/ iopcode ir = 179 -> exec ir m = alu_std ir Z.lor 1 m)
    /\ (iopcode ir = 240 \/ iopcode ir = 242 \/ iopcode ir = 243 -> exec ir m = alu_std ir Z.lor 2 m)
    /\ (iopcode ir = 180 \/ iopcode ir = 182 \/ iopcode ir = 183 -> exec ir m = alu_std ir Z.lxor 1 m)
    /\ (iopcode ir = 244 \/ iopcode ir = 246 \/ iopcode ir = 247 -> exec ir m = alu_std ir Z.lxor 2 m)
    /\ (iopcode ir = 168 \/ iopcode ir = 170 \/ iopcode ir = 171 -> exec ir m = alu_std ir (fun a b => w32 (a * b)) 1 m)
    /\ (iopcode ir = 232 \/ iopcode ir = 234 \/ iopcode ir = 235 -> exec ir m = alu_std ir (fun a b => w32 (a * b)) 2 m).
Proof.
  intros ir m. repeat split.
  - exact (exec_and2 ir m). - exact (exec_and3 ir m). - exact (exec_or2 ir m). - exact (exec_or3 ir m).
  - exact (exec_xor2 ir m). - exact (exec_xor3 ir m). - exact (exec_mul2 ir m). - exact (exec_mul3 ir m).
Qed.
Print Assumptions C02_opcode_arms.

(* ---- whole-instruction final states (register-to-register word forms): destination value, all four
   condition codes, every other register, and memory ---- *)
From Dmd Require Import Proofs.AluFinal.

Theorem C02_add_word_final_state :
  forall ir m rs rt rd,
    0 <= rd <= 10 -> word (R m rs) -> word (R m rt) ->
    (iopcode ir = 156 /\ reg_word ir 0 rs /\ reg_word ir 1 rd /\ rt = rd)
    \/ (iopcode ir = 220 /\ reg_word ir 0 rs /\ reg_word ir 1 rt /\ reg_word ir 2 rd) ->
    let a := R m rs in let b := R m rt in
    exists m', exec ir m = Ok (ilen ir) m'
      /\ word_outcome m m' rd ((a + b) mod 2 ^ 32) (Z.testbit ((a + b) mod 2 ^ 32) 31) ((a + b) mod 2 ^ 32 =? 0)
           (negb ((-2147483648 <=? s32 a + s32 b) && (s32 a + s32 b <? 2147483648))) (2 ^ 32 <=? a + b).
Proof.
  intros ir m rs rt rd Hd Wa Wb [[Ho [S [D ->]]]|[Ho [S [T D]]]].
  - exact (addw2_final ir m rs rd Ho S D Hd Wa Wb).
  - exact (addw3_final ir m rs rt rd Ho S T D Hd Wa Wb).
Qed.
Print Assumptions C02_add_word_final_state.

Theorem C02_sub_word_final_state :
  forall ir m rs rt rd,
    0 <= rd <= 10 ->
    (iopcode ir = 188 /\ reg_word ir 0 rs /\ reg_word ir 1 rd /\ rt = rd)
    \/ (iopcode ir = 252 /\ reg_word ir 0 rs /\ reg_word ir 1 rt /\ reg_word ir 2 rd) ->
    let a := R m rt in let b := R m rs in
    exists m', exec ir m = Ok (ilen ir) m'
      /\ R m' rd = (a - b) mod 2 ^ 32
      /\ flag F_N m' = Z.testbit ((a - b) mod 2 ^ 32) 31 /\ flag F_Z m' = ((a - b) mod 2 ^ 32 =? 0)
      /\ flag F_C m' = (a <? b) /\ flag F_V m' = false
      /\ (forall i, 0 <= i <= 15 -> i <> rd -> i <> 11 -> R m' i = R m i) /\ mbus m' = mbus m.
Proof.
  intros ir m rs rt rd Hd [[Ho [S [D ->]]]|[Ho [S [T D]]]].
  - exact (subw2_final ir m rs rd Ho S D Hd).
  - exact (subw3_final ir m rs rt rd Ho S T D Hd).
Qed.
Print Assumptions C02_sub_word_final_state.

Theorem C02_logic_mul_word_final_state :
  forall ir m f dst rs rt rd,
    std_word_arm (iopcode ir) = Some (f, dst) -> reg_word ir 0 rs -> reg_word ir 1 rt -> reg_word ir dst rd ->
    0 <= rd <= 10 ->
    let res := f (R m rs) (R m rt) in
    exists m', exec ir m = Ok (ilen ir) m' /\ word_outcome m m' rd res (Z.testbit res 31) (res =? 0) false false.
Proof. exact logic_mul_word_final. Qed.
Print Assumptions C02_logic_mul_word_final_state.

(* the premises are met by ordinary instructions:  ADDW2 %r1,%r2  and  XORW3 %r1,%r2,%r3 *)
Example C02_final_state_premises :
  let rg r := mkOperand 1 MRegister DWord None (Some r) 0 in
  let add2 := mkInstr 156 3 (rg 1) (rg 2) operand_clear operand_clear in
  let xor3 := mkInstr 244 4 (rg 1) (rg 2) (rg 3) operand_clear in
  (iopcode add2 = 156 /\ reg_word add2 0 1 /\ reg_word add2 1 2)
  /\ (std_word_arm (iopcode xor3) = Some (Z.lxor, 2) /\ reg_word xor3 0 1 /\ reg_word xor3 1 2 /\ reg_word xor3 2 3).
Proof. cbv zeta. unfold reg_word. cbn. repeat split. Qed.

(* every size: AND / OR / XOR / MUL (24 opcodes) with a register destination and side-effect-free source reads:
   N is the sign bit at the operand size, Z says the result truncated to the operand size is zero, C = 0, and V
   says the result does not fit the operand size *)
Theorem C02_logic_mul_final_state_every_size :
  forall ir m f dst r a b,
    std_arm (iopcode ir) = Some (f, dst) -> read_op ir 0 m = Ok a m -> read_op ir 1 m = Ok b m ->
    omode (get_op ir dst) = MRegister -> oreg (get_op ir dst) = Some r -> 0 <= r <= 10 ->
    otype (get_op ir dst) <> DNone ->
    let t := otype (get_op ir dst) in
    exists m', exec ir m = Ok (ilen ir) m'
      /\ word_outcome m m' r (f a b) (Z.testbit (f a b) (sign_bit t)) (trunc_to t (f a b) =? 0) (too_big t (f a b)) false.
Proof. exact logic_mul_sized_final. Qed.
Print Assumptions C02_logic_mul_final_state_every_size.

(* the add / subtract helpers at halfword and byte size *)
Theorem C02_add_sub_final_state_small_sizes :
  forall ir a b dst r m,
    omode (get_op ir dst) = MRegister -> oreg (get_op ir dst) = Some r -> 0 <= r <= 10 ->
    let t := otype (get_op ir dst) in
    (oetype (get_op ir dst) = None -> (t = DHalf \/ t = DByte) ->
       let res := w32 (a + b) in
       let top := if dtype_eqb t DHalf then 15 else 7 in
       exists m', add_op ir a b dst m = Ok tt m'
         /\ word_outcome m m' r res (Z.testbit res top) (trunc_to t res =? 0)
              (Z.testbit (Z.land (Z.lxor a (not32 b)) (Z.lxor a res)) top)
              (a + b >? (if dtype_eqb t DHalf then 65535 else 255)))
    /\ (t <> DNone ->
       let res := w32 (a - b) in
       exists m', sub_op ir a b dst m = Ok tt m'
         /\ word_outcome m m' r res (Z.testbit res (sign_bit t)) (trunc_to t res =? 0) (too_big t res) (a <? b)).
Proof.
  intros ir a b dst r m Hm Hr Hr10 t. split.
  - intros He Ht. exact (add_op_sized_final ir a b dst r m Hm Hr Hr10 He Ht).
  - intros Ht. exact (sub_op_sized_final ir a b dst r m Hm Hr Hr10 Ht).
Qed.
Print Assumptions C02_add_sub_final_state_small_sizes.

(* a word destination in memory (any memory addressing mode, effective address in RAM): the word at that address
   is the result, the condition codes are as for a register destination, no register but the PSW and no other
   RAM byte changes *)
From Dmd Require Import Proofs.MachKit Proofs.BusProofs.
Theorem C02_logic_mul_word_final_state_memory_destination :
  forall ir m f dst a x y,
    std_arm (iopcode ir) = Some (f, dst) -> read_op ir 0 m = Ok x m -> read_op ir 1 m = Ok y m ->
    memory_mode (omode (get_op ir dst)) -> effective_address ir dst m = Ok a m ->
    data_type (get_op ir dst) = DWord -> otype (get_op ir dst) = DWord ->
    bus_wf (mbus m) -> in_ram_w a ->
    let res := f x y in
    exists m', exec ir m = Ok (ilen ir) m'
      /\ ldw m' a = w32 res
      /\ flag F_N m' = Z.testbit res 31 /\ flag F_Z m' = (res =? 0) /\ flag F_C m' = false /\ flag F_V m' = false
      /\ (forall i, 0 <= i <= 15 -> i <> 11 -> R m' i = R m i)
      /\ (forall b, RAMB <= b -> (b < a \/ a + 4 <= b) -> ramb m' b = ramb m b).
Proof. exact logic_mul_mem_word_final. Qed.
Print Assumptions C02_logic_mul_word_final_state_memory_destination.

(* logical shifts and rotate, word size, register destination: LLSW3 (208) shifts left by count mod 32 and truncates
   to 32 bits, LRSW3 (212) shifts right, ROTW (216) rotates right; N, Z from the result, C = V = 0 *)
Theorem C02_shift_rotate_word_final_state :
  forall ir m cnt v r res,
    shift_result (iopcode ir) cnt v = Some res ->
    read_op ir 0 m = Ok cnt m -> read_op ir 1 m = Ok v m ->
    omode (get_op ir 2) = MRegister -> oreg (get_op ir 2) = Some r -> 0 <= r <= 10 -> otype (get_op ir 2) = DWord ->
    exists m', exec ir m = Ok (ilen ir) m'
      /\ word_outcome m m' r res (Z.testbit res 31) (res =? 0) false false.
Proof. exact shift_word_final. Qed.
Print Assumptions C02_shift_rotate_word_final_state.

(* moves and unary operations (MOV, MCOM, MNEG at every size), CLR, and the word compare / test *)
Theorem C02_move_unary_final_state :
  forall ir m a r res,
    unary_result (iopcode ir) a = Some res -> read_op ir 0 m = Ok a m ->
    omode (get_op ir 1) = MRegister -> oreg (get_op ir 1) = Some r -> 0 <= r <= 10 -> otype (get_op ir 1) <> DNone ->
    let t := otype (get_op ir 1) in
    exists m', exec ir m = Ok (ilen ir) m'
      /\ word_outcome m m' r res (Z.testbit res (sign_bit t)) (trunc_to t res =? 0) (too_big t res) false.
Proof. exact unary_sized_final. Qed.
Print Assumptions C02_move_unary_final_state.

Theorem C02_clr_final_state :
  forall ir m r,
    iopcode ir = 128 \/ iopcode ir = 130 \/ iopcode ir = 131 ->
    omode (get_op ir 0) = MRegister -> oreg (get_op ir 0) = Some r -> 0 <= r <= 10 ->
    exists m', exec ir m = Ok (ilen ir) m' /\ word_outcome m m' r 0 false true false false.
Proof. exact clr_final. Qed.
Print Assumptions C02_clr_final_state.

Theorem C02_compare_test_word_final_state :
  forall ir m a b,
    read_op ir 0 m = Ok a m ->
    (iopcode ir = 60 -> read_op ir 1 m = Ok b m ->
       exists m', exec ir m = Ok (ilen ir) m'
         /\ flag F_Z m' = (b =? a) /\ flag F_N m' = (s32 b <? s32 a) /\ flag F_C m' = (b <? a) /\ flag F_V m' = false
         /\ (forall i, 0 <= i <= 15 -> i <> 11 -> R m' i = R m i) /\ mbus m' = mbus m)
    /\ (iopcode ir = 40 ->
       exists m', exec ir m = Ok (ilen ir) m'
         /\ flag F_Z m' = (a =? 0) /\ flag F_N m' = (s32 a <? 0) /\ flag F_C m' = false /\ flag F_V m' = false
         /\ (forall i, 0 <= i <= 15 -> i <> 11 -> R m' i = R m i) /\ mbus m' = mbus m).
Proof.
  intros ir m a b R0. split.
  - intros Ho R1. exact (cmpw_final ir m a b Ho R0 R1).
  - intros Ho. exact (tstw_final ir m a Ho R0).
Qed.
Print Assumptions C02_compare_test_word_final_state.

(* divide and remainder with a register destination (the six DIV and six MOD opcodes go through div_arm / mod_arm,
   C02_opcode_arms / exec_div / exec_mod): quotient / remainder as C02_div_mod_results defines them, N and Z from it
   at the operand size, C = 0 *)
Theorem C02_div_mod_final_state :
  forall ir dst m a b q r,
    read_op ir 0 m = Ok a m -> read_op ir 1 m = Ok b m -> a <> 0 ->
    omode (get_op ir dst) = MRegister -> oreg (get_op ir dst) = Some r -> 0 <= r <= 10 ->
    otype (get_op ir dst) <> DNone ->
    let t := otype (get_op ir dst) in
    (forall oa ob, div_val a b (otype (get_op ir 1)) = Some q ->
       exists m', div_arm ir dst oa ob m = Ok (ilen ir) m'
         /\ R m' r = q /\ flag F_N m' = Z.testbit q (sign_bit t) /\ flag F_Z m' = (trunc_to t q =? 0) /\ flag F_C m' = false
         /\ (forall i, 0 <= i <= 15 -> i <> r -> i <> 11 -> R m' i = R m i) /\ mbus m' = mbus m)
    /\ (mod_val a b (otype (get_op ir 1)) = Some q ->
       exists m', mod_arm ir dst m = Ok (ilen ir) m'
         /\ word_outcome m m' r q (Z.testbit q (sign_bit t)) (trunc_to t q =? 0) (too_big t q) false).
Proof.
  intros ir dst m a b q r R0 R1 Na Hm Hr Hr10 Ht t. split.
  - intros oa ob Hq. exact (div_arm_final ir dst oa ob m a b q r R0 R1 Na Hq Hm Hr Hr10 Ht).
  - intros Hq. exact (mod_arm_final ir dst m a b q r R0 R1 Na Hq Hm Hr Hr10 Ht).
Qed.
Print Assumptions C02_div_mod_final_state.

(* arithmetic right shifts at every size (the value shifted is the source taken at the type of operand 0, as
   C02_shift_results describes), register destination: N and Z from the result at the destination size, C = V = 0 *)
Theorem C02_arithmetic_shift_final_state :
  forall ir m cnt v r,
    iopcode ir = 196 \/ iopcode ir = 198 \/ iopcode ir = 199 ->
    read_op ir 0 m = Ok cnt m -> read_op ir 1 m = Ok v m ->
    omode (get_op ir 2) = MRegister -> oreg (get_op ir 2) = Some r -> 0 <= r <= 10 -> otype (get_op ir 2) <> DNone ->
    let t := otype (get_op ir 2) in
    let res := ars_value (data_type (op0 ir)) v (Z.land cnt 31) in
    exists m', exec ir m = Ok (ilen ir) m'
      /\ word_outcome m m' r res (Z.testbit res (sign_bit t)) (trunc_to t res =? 0) false false.
Proof. exact ars_final. Qed.
Print Assumptions C02_arithmetic_shift_final_state.

(* CMPH / CMPB: equality and unsigned order of the operands at the operand size, signed order at halfword (and byte)
   size; nothing but the condition codes changes *)
Theorem C02_compare_small_final_state :
  forall ir m a b z n c,
    cmp_flags (iopcode ir) a b = Some (z, n, c) -> read_op ir 0 m = Ok a m -> read_op ir 1 m = Ok b m ->
    exists m', exec ir m = Ok (ilen ir) m'
      /\ flag F_Z m' = z /\ flag F_N m' = n /\ flag F_C m' = c /\ flag F_V m' = false
      /\ (forall i, 0 <= i <= 15 -> i <> 11 -> R m' i = R m i) /\ mbus m' = mbus m.
Proof. exact cmp_small_final. Qed.
Print Assumptions C02_compare_small_final_state.

(* the condition-code setters and getters the theorems above speak about are Cpu::set_{c,v,z,n}_flag and
   Cpu::{c,v,z,n}_flag as they stand in /repo/src/cpu.rs (Gen/GenFlags.v: their bodies translated on every run) *)
From Dmd Require Import Gen.GenFlags Proofs.FlagTie.
Theorem C02_flag_helpers_are_source_functions :
  forall m b,
    (set_c b m = g_set_c_flag m b /\ set_v b m = g_set_v_flag m b /\ set_z b m = g_set_z_flag m b /\ set_n b m = g_set_n_flag m b)
    /\ (flag F_C m = g_c_flag m /\ flag F_V m = g_v_flag m /\ flag F_Z m = g_z_flag m /\ flag F_N m = g_n_flag m).
Proof. intros m b. split; [apply setters_are_source | apply getters_are_source]. Qed.
Print Assumptions C02_flag_helpers_are_source_functions.
