(* C13  Bus faults enter the exception handler precisely and RETG resumes.
   ldw m a: the big-endian RAM word at a; romw: a ROM word; in_ram_w: word-aligned and inside RAM. *)
From Coq Require Import ZArith List Bool.
From Dmd Require Import Model.Bits Model.Types Model.Mem Model.Bus Model.Decode Model.Cpu.
From Dmd Require Import Proofs.BusProofs Proofs.MachKit Proofs.ExceptionProofs.
Open Scope Z_scope.

(* Cpu::step: an instruction that returns NoDevice / Read / Write (non-existent memory, ROM write, unsupported
   device access) takes the normal-exception path from the state the instruction left, PC not advanced *)
Theorem C13_bus_error_takes_exception_path :
  forall now m e m1, dispatch now m = Err (EBus e) m1 -> (e = BNoDevice \/ e = BRead \/ e = BWrite) ->
    step now m = match on_exception m1 with
                 | Ok _ m' => Ok tt m'
                 | Err _ _ => Panic
                 | Panic => Panic
                 | OutOfFuel => OutOfFuel
                 end.
Proof. exact step_bus_error. Qed.
Print Assumptions C13_bus_error_takes_exception_path.

(* exception entry: the address of the faulting instruction at [SP], the PSW (ET 0, ISC 3, rest as at the fault) at
   [SP+4], SP + 8, new PC from the second-level gate table entry [[0] + 44], new PSW from [[0] + 40] merged as
   the architecture prescribes; r0-r10, PCBP, ISP untouched; no other RAM byte written *)
Theorem C13_exception_entry :
  forall m, bus_wf (mbus m) -> in_ram_w (R m R_SP) -> in_ram_w (R m R_SP + 4) ->
    let g := romw m 0 in
    in_ram_w (g + 40) -> in_ram_w (g + 44) -> (g + 48 <= R m R_SP \/ R m R_SP + 8 <= g + 40) ->
    exists m', on_exception m = Ok tt m'
      /\ R m' R_SP = R m R_SP + 8 /\ R m' R_PC = ldw m (g + 44)
      /\ PSW m' = gate_psw (ldw m (g + 40)) (exc_psw_pushed (PSW m))
      /\ ldw m' (R m R_SP) = w32 (R m R_PC) /\ ldw m' (R m R_SP + 4) = w32 (exc_psw_pushed (PSW m))
      /\ (forall i, 0 <= i <= 14 -> i <> 11 -> i <> 12 -> R m' i = R m i)
      /\ bus_wf (mbus m')
      /\ (forall a, RAMB <= a -> (a < R m R_SP \/ R m R_SP + 8 <= a) -> ramb m' a = ramb m a).
Proof. exact on_exception_effect. Qed.
Print Assumptions C13_exception_entry.

(* the pushed PSW carries N Z V C (bits 21-18), CM (12-11), PM (10-9), I, R and IPL of the fault *)
Theorem C13_pushed_psw_is_fault_psw :
  forall psw k, In k [21; 20; 19; 18; 12; 11; 10; 9; 7; 8; 13; 14; 15; 16] ->
    Z.testbit (exc_psw_pushed psw) k = Z.testbit psw k.
Proof. exact pushed_keeps_bit. Qed.
Print Assumptions C13_pushed_psw_is_fault_psw.

(* RETG pops PSW and PC, SP - 8; condition codes, CM, PM, I from the popped word, IPL kept *)
Theorem C13_retg_effect :
  forall ir m, iopcode ir = 12357 -> bus_wf (mbus m) -> 8 <= R m R_SP < 4294967296 ->
    in_ram_w (R m R_SP - 4) -> in_ram_w (R m R_SP - 8) ->
    exists m', exec ir m = Ok 0 m' /\ mbus m' = mbus m
      /\ R m' R_PC = ldw m (R m R_SP - 8) /\ R m' R_SP = R m R_SP - 8
      /\ PSW m' = retg_psw (ldw m (R m R_SP - 4)) (PSW m)
      /\ (forall i, 0 <= i <= 14 -> i <> 11 -> i <> 12 -> R m' i = R m i).
Proof. exact retg_effect. Qed.
Print Assumptions C13_retg_effect.

(* fault -> handler entry -> RETG: program counter, stack pointer, N Z V C, execution level (CM) and previous
   level, and r0-r10 are exactly those in force at the fault *)
Theorem C13_retg_resumes :
  forall ir m, iopcode ir = 12357 ->
    bus_wf (mbus m) -> in_ram_w (R m R_SP) -> in_ram_w (R m R_SP + 4) -> R m R_SP + 8 < 4294967296 ->
    0 <= R m R_PC < 4294967296 ->
    let g := romw m 0 in
    in_ram_w (g + 40) -> in_ram_w (g + 44) -> (g + 48 <= R m R_SP \/ R m R_SP + 8 <= g + 40) ->
    exists m1 m2,
      on_exception m = Ok tt m1 /\ exec ir m1 = Ok 0 m2
      /\ R m2 R_PC = R m R_PC /\ R m2 R_SP = R m R_SP
      /\ (forall k, In k [21; 20; 19; 18; 12; 11; 10; 9; 7] -> Z.testbit (PSW m2) k = Z.testbit (PSW m) k)
      /\ (forall i, 0 <= i <= 10 -> R m2 i = R m i).
Proof. exact fault_retg_roundtrip. Qed.
Print Assumptions C13_retg_resumes.

(* precision: whatever error a two-source ALU instruction of the AND/OR/XOR/MUL/ALS shape, a MOV, or (for bus
   errors) an ADD returns, every register including the PSW and every memory is as before the instruction;
   operand reads never change registers or memories; a failing store has stored nothing *)
Theorem C13_alu_fault_precise :
  forall ir f dst m e m', alu_std ir f dst m = Err e m' -> state_kept m m'.
Proof. exact alu_std_fault_precise. Qed.
Print Assumptions C13_alu_fault_precise.

Theorem C13_mov_fault_precise :
  forall ir m e m', iopcode ir = 135 \/ iopcode ir = 134 \/ iopcode ir = 132 ->
    exec ir m = Err e m' -> state_kept m m'.
Proof. exact mov_fault_precise. Qed.
Print Assumptions C13_mov_fault_precise.

Theorem C13_add_fault_precise :
  forall ir m e m', iopcode ir = 156 \/ iopcode ir = 158 \/ iopcode ir = 159 ->
    exec ir m = Err (EBus e) m' -> state_kept m m'.
Proof. exact add2_fault_precise. Qed.
Print Assumptions C13_add_fault_precise.

Theorem C13_operand_access_precise :
  forall ir k v m, keeps m (read_op ir k m) /\ keeps_on_err m (write_op ir k v m).
Proof. intros. split; [apply read_op_keeps | apply write_op_err_keeps]. Qed.
Print Assumptions C13_operand_access_precise.

(* ---- precision for EVERY data-processing, move, compare / test, shift / rotate, bit-field, swap and push / pop
   opcode (100 opcodes, Proofs/PreciseProofs.v): when the instruction ends in a bus fault -- whichever operand it
   was, read or write, whatever the addressing modes -- all sixteen registers (condition codes included) and the
   four memories are exactly what they were before it started.  (state_kept m m' := ROM, display register, NVRAM
   and RAM equal, and the register file equal.) *)
From Dmd Require Import Proofs.PreciseProofs.

Theorem C13_every_data_instruction_is_precise :
  forall ir m e m',
    precise_opcode (iopcode ir) = true -> exec ir m = Err (EBus e) m' -> state_kept m m'.
Proof. exact bus_fault_leaves_state. Qed.
Print Assumptions C13_every_data_instruction_is_precise.

(* the list is not empty of interesting cases: it has the divide, field, swap and stack instructions *)
Example C13_precise_opcodes_include :
  precise_opcode 172 = true /\ precise_opcode 236 = true /\ precise_opcode 204 = true /\ precise_opcode 200 = true
  /\ precise_opcode 28 = true /\ precise_opcode 160 = true /\ precise_opcode 32 = true /\ length
     (filter precise_opcode (map Z.of_nat (seq 0 256))) = 100%nat.
Proof. vm_compute. repeat split. Qed.
