(* C10  Every address reaches exactly its device, or faults.
   Property theorems only: statement, `exact`, Print Assumptions. *)
From Coq Require Import ZArith List.
From Dmd Require Import Model.Bits Model.Mem Model.Bus Gen.GenMemMap Spec.MemMapDoc Proofs.BusProofs.
Open Scope Z_scope.

(* routing as translated from Bus::get_device = the documented map, for every address (all 2^32 and beyond) *)
Theorem C10_source_route_is_documented_map :
  forall a, 0 <= a -> option_map gdev_doc (g_get_device a) = doc_route a.
Proof. exact gen_route_doc. Qed.
Print Assumptions C10_source_route_is_documented_map.

(* the model routes identically *)
Theorem C10_model_route_is_documented_map :
  forall a, 0 <= a -> option_map dev_doc (get_device a) = doc_route a.
Proof. exact model_route_doc. Qed.
Print Assumptions C10_model_route_is_documented_map.

(* outside the map: NoDevice (or the alignment fault that precedes routing), nothing changes *)
Theorem C10_no_device_no_effect :
  forall a v b, get_device a = None ->
    bus_read_byte a b = Err (EBus BNoDevice) b
    /\ (bus_read_half a b = Err (EBus BNoDevice) b \/ bus_read_half a b = Err (EBus BAlignment) b)
    /\ (bus_read_word a b = Err (EBus BNoDevice) b \/ bus_read_word a b = Err (EBus BAlignment) b)
    /\ bus_write_byte a v b = Err (EBus BNoDevice) b
    /\ (bus_write_half a v b = Err (EBus BNoDevice) b \/ bus_write_half a v b = Err (EBus BAlignment) b)
    /\ (bus_write_word a v b = Err (EBus BNoDevice) b \/ bus_write_word a v b = Err (EBus BAlignment) b).
Proof.
  intros a v b H. repeat split.
  - exact (nodev_read_byte a b H). - exact (nodev_read_half a b H). - exact (nodev_read_word a b H).
  - exact (nodev_write_byte a v b H). - exact (nodev_write_half a v b H). - exact (nodev_write_word a v b H).
Qed.
Print Assumptions C10_no_device_no_effect.

(* an access routed to device d leaves every other device untouched, whatever its outcome *)
Theorem C10_device_access_frame :
  forall a v b d, get_device a = Some d ->
    res_frame d b (bus_read_byte a b) /\ res_frame d b (bus_read_half a b) /\ res_frame d b (bus_read_word a b)
    /\ res_frame d b (bus_write_byte a v b) /\ res_frame d b (bus_write_half a v b)
    /\ res_frame d b (bus_write_word a v b).
Proof.
  intros a v b d H. repeat split.
  - exact (read_byte_frame a b d H). - exact (read_half_frame a b d H). - exact (read_word_frame a b d H).
  - exact (write_byte_frame a v b d H). - exact (write_half_frame a v b d H). - exact (write_word_frame a v b d H).
Qed.
Print Assumptions C10_device_access_frame.

(* no access, at any address and width, crashes or runs past a device *)
Theorem C10_no_spill_no_crash :
  forall b, bus_wf b -> forall a v, 0 <= a ->
    not_crash (bus_read_byte a b) /\ not_crash (bus_read_half a b) /\ not_crash (bus_read_word a b)
    /\ not_crash (bus_write_byte a v b) /\ not_crash (bus_write_half a v b) /\ not_crash (bus_write_word a v b).
Proof.
  intros b W a v Ha. repeat split.
  - exact (bus_read_byte_nocrash b W a Ha). - exact (bus_read_half_nocrash b W a Ha).
  - exact (bus_read_word_nocrash b W a Ha). - exact (bus_write_byte_nocrash b W a v).
  - exact (bus_write_half_nocrash b W a v). - exact (bus_write_word_nocrash b W a v).
Qed.
Print Assumptions C10_no_spill_no_crash.

(* the hypotheses are satisfiable: the power-on bus is well-formed *)
Example C10_nonvacuous : bus_wf (bus_new 0).
Proof. exact (bus_new_wf 0). Qed.
