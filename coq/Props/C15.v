(* C15  The frame the host fetches is the display window, and dirty means written. *)
From Coq Require Import ZArith List Bool.
From Dmd Require Import Model.Bits Model.Mem Model.Bus Proofs.BusProofs Proofs.VideoProofs.
Open Scope Z_scope.

(* for every display-start value: the fetch returns exactly RAM[4*reg .. 4*reg+102400), clears the flag,
   changes nothing else, and cannot panic *)
Theorem C15_frame_is_window :
  forall b, bus_wf b -> vid_ok b ->
    bus_video_ram b = Ok (mem_slice (ram b) (video_start b) (Z.to_nat 102400)) (with_dirty b false).
Proof. exact frame_is_window. Qed.
Print Assumptions C15_frame_is_window.

Theorem C15_frame_bytes :
  forall m off n, length (mem_slice m off n) = n
    /\ forall i, (i < n)%nat -> nth_error (mem_slice m off n) i = Some (mget m (off + Z.of_nat i)).
Proof. intros m off n. exact (conj (mem_slice_length m off n) (mem_slice_nth m n off)). Qed.
Print Assumptions C15_frame_bytes.

Theorem C15_display_start_any_value :
  forall b, vid_ok b -> 0 <= video_start b <= 262140 /\ video_start b mod 4 = 0.
Proof. exact video_start_bound. Qed.
Print Assumptions C15_display_start_any_value.

(* aligned accesses never straddle a window edge *)
Theorem C15_aligned_access_inside_or_outside :
  forall b a, vid_ok b ->
    (a mod 2 = 0 -> in_window b (a + 1) = in_window b a)
    /\ (a mod 4 = 0 -> forall j, 0 <= j < 4 -> in_window b (a + j) = in_window b a).
Proof.
  intros b a Vk. split.
  - exact (window_half_aligned b a Vk).
  - intros Ha j. exact (window_word_aligned b a j Vk Ha).
Qed.
Print Assumptions C15_aligned_access_inside_or_outside.

(* over every history of guest writes (any width, any address, including display-start changes) and host fetches:
   dirty  <->  some successful write since the last fetch had a byte inside the window current at that write *)
Theorem C15_dirty_iff_written :
  forall ops b, vinv b -> dirty (fst (ghost_run ops b (dirty b))) = snd (ghost_run ops b (dirty b)).
Proof. exact dirty_iff_written. Qed.
Print Assumptions C15_dirty_iff_written.

(* one step: set exactly by a landing write, cleared only by the fetch *)
Theorem C15_dirty_step :
  forall o b, vinv b ->
    dirty (vstep o b) = match o with VFetch => false | _ => dirty b || lands b o end.
Proof. exact dirty_step. Qed.
Print Assumptions C15_dirty_step.

Theorem C15_invariant_reachable :
  forall now, vinv (bus_new now) /\ forall o b, vinv b -> vinv (vstep o b).
Proof. intros now. exact (conj (vinv_new now) vinv_step). Qed.
Print Assumptions C15_invariant_reachable.
