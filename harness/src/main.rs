// Executor for the implementation side of the correspondence check.
//
// usage: dmd_verif_harness <cases-file> <out-file>
//
// Every line of the cases file is one case: `<id> <op> <op> ...`.
// For every case a fresh machine (Dmd::new(), virtual clock 0) is built,
// the ops are executed in order, and one output line
// `<id> <obs> <obs> ... | <final state>` is written.  A panic inside the
// library is caught, printed as `p`, and ends the case (no final state).
//
// All numbers are lower-case hex without prefix.

use dmd_core::verif::clock;
use dmd_core::verif::*;
use std::fmt::Write as FmtWrite;
use std::io::{BufRead, BufReader, BufWriter, Write};
use std::panic::{catch_unwind, AssertUnwindSafe};

extern "Rust" {
    fn dmd_init(version: u8) -> i32;
    fn dmd_video_ram() -> *const u8;
    fn dmd_video_ram_dirty() -> i32;
    fn dmd_step() -> i32;
    fn dmd_step_loop(steps: usize) -> i32;
    fn dmd_get_pc(pc: &mut u32) -> i32;
    fn dmd_get_register(reg: u8, val: &mut u32) -> i32;
    fn dmd_read_word(addr: u32, val: &mut u32) -> i32;
    fn dmd_read_byte(addr: u32, val: &mut u8) -> i32;
    fn dmd_get_duart_output_port(oport: &mut u8) -> i32;
    fn dmd_mouse_move(x: u16, y: u16) -> i32;
    fn dmd_mouse_down(button: u8) -> i32;
    fn dmd_mouse_up(button: u8) -> i32;
    fn dmd_rs232_rx(c: u8) -> i32;
    fn dmd_keyboard_rx(c: u8) -> i32;
    fn dmd_rs232_tx(tx_char: &mut u8) -> i32;
    fn dmd_keyboard_tx(tx_char: &mut u8) -> i32;
    fn dmd_set_nvram(nvram: &[u8; 8192]) -> i32;
    fn dmd_get_nvram(nvram: &mut [u8; 8192]) -> i32;
}

const FNV_OFF: u64 = 0xcbf29ce484222325;
const FNV_PRIME: u64 = 0x100000001b3;

fn fnv_byte(h: u64, b: u8) -> u64 {
    (h ^ u64::from(b)).wrapping_mul(FNV_PRIME)
}

/// Digest of a byte array: number of non-zero bytes and FNV-1a over
/// (offset as 3 bytes big-endian, value) of the non-zero bytes in order.
fn digest(mem: &[u8]) -> String {
    let mut h = FNV_OFF;
    let mut n: u64 = 0;
    for (i, b) in mem.iter().enumerate() {
        if *b != 0 {
            n += 1;
            h = fnv_byte(h, (i >> 16) as u8);
            h = fnv_byte(h, (i >> 8) as u8);
            h = fnv_byte(h, i as u8);
            h = fnv_byte(h, *b);
        }
    }
    format!("{:x}.{:016x}", n, h)
}

fn bus_err(e: &BusError) -> &'static str {
    match e {
        BusError::Init => "eI",
        BusError::Read(_) => "eR",
        BusError::Write(_) => "eW",
        BusError::NoDevice(_) => "eN",
        BusError::Range => "eG",
        BusError::Permission => "eP",
        BusError::Alignment(_) => "eA",
    }
}

fn cpu_err(e: &CpuError) -> &'static str {
    match e {
        CpuError::Bus(b) => bus_err(b),
        CpuError::Exception(CpuException::IllegalOpcode) => "xI",
        CpuError::Exception(CpuException::InvalidDescriptor) => "xD",
        CpuError::Exception(CpuException::PrivilegedOpcode) => "xP",
        CpuError::Exception(CpuException::IntegerZeroDivide) => "xZ",
    }
}

fn mode_code(m: AddrMode) -> u8 {
    match m {
        AddrMode::None => 0,
        AddrMode::Absolute => 1,
        AddrMode::AbsoluteDeferred => 2,
        AddrMode::ByteDisplacement => 3,
        AddrMode::ByteDisplacementDeferred => 4,
        AddrMode::HalfwordDisplacement => 5,
        AddrMode::HalfwordDisplacementDeferred => 6,
        AddrMode::WordDisplacement => 7,
        AddrMode::WordDisplacementDeferred => 8,
        AddrMode::ApShortOffset => 9,
        AddrMode::FpShortOffset => 10,
        AddrMode::ByteImmediate => 11,
        AddrMode::HalfwordImmediate => 12,
        AddrMode::WordImmediate => 13,
        AddrMode::PositiveLiteral => 14,
        AddrMode::NegativeLiteral => 15,
        AddrMode::Register => 16,
        AddrMode::RegisterDeferred => 17,
        AddrMode::Expanded => 18,
    }
}

fn hx(s: &str) -> u64 {
    u64::from_str_radix(s, 16).unwrap_or_else(|_| panic!("bad hex '{}'", s))
}

fn hexbytes(s: &str) -> Vec<u8> {
    let b = s.as_bytes();
    let mut v = Vec::with_capacity(b.len() / 2);
    let mut i = 0;
    while i + 1 < b.len() {
        v.push(hx(&s[i..i + 2]) as u8);
        i += 2;
    }
    v
}

/// Pseudo-random bytes shared with the model driver: x <- x*6364136223846793005+1442695040888963407 (mod 2^64), byte = x >> 56
fn lcg_bytes(seed: u64, len: usize) -> Vec<u8> {
    let mut x = seed;
    let mut v = Vec::with_capacity(len);
    for _ in 0..len {
        x = x.wrapping_mul(6364136223846793005).wrapping_add(1442695040888963407);
        v.push((x >> 56) as u8);
    }
    v
}

fn ir_string(cpu: &Cpu) -> String {
    let ir = cpu.verif_ir();
    let mut s = format!("{:x}:{:x}", ir.opcode, ir.len);
    for op in ir.operands.iter() {
        let (dt, et) = op.verif_types();
        let reg: i64 = match op.register {
            Some(r) => r as i64,
            None => -1,
        };
        let _ = write!(
            s,
            ":{:x},{:x},{},{:x},{},{}",
            op.size,
            mode_code(op.mode),
            reg,
            op.embedded,
            dt,
            et
        );
    }
    s
}

fn regs_string(cpu: &Cpu) -> String {
    let mut s = String::from("R");
    for (i, r) in cpu.r.iter().enumerate() {
        let _ = write!(s, "{}{:x}", if i == 0 { ":" } else { "," }, r);
    }
    s
}

fn duart_string(d: &Duart) -> String {
    let mut s = String::from("D");
    for (i, v) in d.verif_snapshot().iter().enumerate() {
        let _ = write!(s, "{}{}", if i == 0 { ":" } else { "," }, v);
    }
    s
}

fn final_state(dmd: &mut Dmd) -> String {
    let dirty = dmd.video_ram_dirty();
    let nv = digest(dmd.get_nvram());
    let (cpu, bus) = dmd.verif_parts();
    let vid = bus.verif_vid();
    let (mx, my) = bus.verif_mouse();
    format!(
        "{} {} ram:{} rom:{} nv:{} vid:{:02x}{:02x} mouse:{:x},{:x} dirty:{}",
        regs_string(cpu),
        duart_string(bus.verif_duart()),
        digest(bus.verif_ram()),
        digest(bus.verif_rom()),
        nv,
        vid[0],
        vid[1],
        mx,
        my,
        if dirty { 1 } else { 0 }
    )
}

struct Ctx {
    dmd: Dmd,
    tick: u64,
    nvslot: Vec<u8>,
}

fn step_clock(ctx: &Ctx) {
    if ctx.tick != 0 {
        clock::advance_ns(ctx.tick);
    }
}

fn access_code(n: u64) -> AccessCode {
    match n & 15 {
        0 => AccessCode::MoveTranslated,
        1 => AccessCode::CoprDataWrite,
        2 => AccessCode::AutoVectorIrqAck,
        3 => AccessCode::CoprDataFetch,
        4 => AccessCode::StopAck,
        5 => AccessCode::CoprBroadcast,
        6 => AccessCode::CoprStatusFetch,
        7 => AccessCode::ReadInterlocked,
        8 => AccessCode::AddressFetch,
        9 => AccessCode::OperandFetch,
        10 => AccessCode::Write,
        11 => AccessCode::IrqAck,
        12 => AccessCode::IfAfterPcDisc,
        13 => AccessCode::InstrPrefetch,
        14 => AccessCode::InstrFetch,
        _ => AccessCode::NoOp,
    }
}

fn exec_op(ctx: &mut Ctx, tok: &str) -> String {
    let f: Vec<&str> = tok.split(':').collect();
    let a = |i: usize| -> u64 { hx(f[i]) };
    match f[0] {
        "t" => {
            clock::set_ns(a(1));
            "-".into()
        }
        "k" => {
            ctx.tick = a(1);
            "-".into()
        }
        "rb" | "rh" | "rw" | "oh" | "ow" => {
            let (_, bus) = ctx.dmd.verif_parts();
            let addr = a(1) as usize;
            // optional third field: the access code the read is made with (the result must not depend on it)
            let code = if f.len() > 2 { access_code(a(2)) } else { AccessCode::AddressFetch };
            let r: Result<u64, BusError> = match f[0] {
                "rb" => bus.read_byte(addr, code).map(u64::from),
                "rh" => bus.read_half(addr, code).map(u64::from),
                "rw" => bus.read_word(addr, code).map(u64::from),
                "oh" => bus.read_op_half(addr).map(u64::from),
                _ => bus.read_op_word(addr).map(u64::from),
            };
            match r {
                Ok(v) => format!("v{:x}", v),
                Err(e) => bus_err(&e).into(),
            }
        }
        "wb" | "wh" | "ww" => {
            let (_, bus) = ctx.dmd.verif_parts();
            let addr = a(1) as usize;
            let v = a(2);
            let r = match f[0] {
                "wb" => bus.write_byte(addr, v as u8),
                "wh" => bus.write_half(addr, v as u16),
                _ => bus.write_word(addr, v as u32),
            };
            match r {
                Ok(()) => "ok".into(),
                Err(e) => bus_err(&e).into(),
            }
        }
        "wn" => {
            // wn:<addr>:<n>  n byte writes to one address (values 0,1,2,...): long write histories in one token
            let (_, bus) = ctx.dmd.verif_parts();
            let addr = a(1) as usize;
            let mut res: String = "ok".into();
            for i in 0..a(2) {
                if let Err(e) = bus.write_byte(addr, i as u8) {
                    res = bus_err(&e).into();
                    break;
                }
            }
            res
        }
        "lx" => {
            // a host load that may run past the end of its device: Mem::load stores byte by byte and panics at the first
            // byte outside the vector; the case goes on with whatever state that leaves
            let bytes = hexbytes(f[2]);
            let addr = a(1) as usize;
            let r = catch_unwind(AssertUnwindSafe(|| {
                let (_, bus) = ctx.dmd.verif_parts();
                bus.load(addr, &bytes)
            }));
            match r {
                Ok(Ok(())) => "ok".into(),
                Ok(Err(e)) => bus_err(&e).into(),
                Err(_) => "p".into(),
            }
        }
        "ld" => {
            let (_, bus) = ctx.dmd.verif_parts();
            let bytes = hexbytes(f[2]);
            match bus.load(a(1) as usize, &bytes) {
                Ok(()) => "ok".into(),
                Err(e) => bus_err(&e).into(),
            }
        }
        "r" => {
            let (cpu, _) = ctx.dmd.verif_parts();
            cpu.r[(a(1) & 0xf) as usize] = a(2) as u32;
            "-".into()
        }
        "st" => {
            step_clock(ctx);
            let (cpu, bus) = ctx.dmd.verif_parts();
            match cpu.step_with_error(bus) {
                Ok(()) => "ok".into(),
                Err(e) => cpu_err(&e).into(),
            }
        }
        "sx" => {
            step_clock(ctx);
            ctx.dmd.step();
            "ok".into()
        }
        "rq" => {
            // rq:<steps>:<every>:<byte>  run <steps> instructions, the host sending <byte> on RS-232 every <every> steps
            // (system cases only: not an operation of the model driver)
            let n = a(1);
            let every = a(2).max(1);
            let b = a(3) as u8;
            for i in 0..n {
                if i % every == 0 {
                    ctx.dmd.rs232_rx(b);
                }
                step_clock(ctx);
                ctx.dmd.step();
            }
            "ok".into()
        }
        "rn" => {
            // rn:<n>  Dmd::run(n): the clock advances once, then n instructions
            step_clock(ctx);
            ctx.dmd.run(a(1) as usize);
            "ok".into()
        }
        "run" => {
            let n = a(1);
            for _ in 0..n {
                step_clock(ctx);
                ctx.dmd.step();
            }
            "ok".into()
        }
        "dc" => {
            let (cpu, bus) = ctx.dmd.verif_parts();
            match cpu.verif_decode(bus) {
                Ok(()) => format!("ok:{}", ir_string(cpu)),
                Err(e) => cpu_err(&e).into(),
            }
        }
        "rs" => match ctx.dmd.reset(a(1) as u8) {
            Ok(()) => "ok".into(),
            Err(e) => bus_err(&e).into(),
        },
        "gr" => {
            let (cpu, _) = ctx.dmd.verif_parts();
            regs_string(cpu)
        }
        "g1" => format!("v{:x}", ctx.dmd.get_register(a(1) as u8)),
        "gp" => format!("v{:x},{:x},{:x}", ctx.dmd.get_pc(), ctx.dmd.get_psw(), ctx.dmd.get_ap()),
        "db" => match ctx.dmd.read_byte(a(1) as usize) {
            Some(v) => format!("v{:x}", v),
            None => "n".into(),
        },
        "dw" => match ctx.dmd.read_word(a(1) as usize) {
            Some(v) => format!("v{:x}", v),
            None => "n".into(),
        },
        "vr" => {
            let fr = ctx.dmd.video_ram();
            format!("f{:x}.{}", fr.len(), digest(fr))
        }
        "vd" => format!("d{}", if ctx.dmd.video_ram_dirty() { 1 } else { 0 }),
        "ng" => {
            let nv = ctx.dmd.get_nvram();
            format!("n{:x}.{}", nv.len(), digest(nv))
        }
        "ns" => {
            // ns:<seed>:<len>  pseudo-random image
            let bytes = lcg_bytes(a(1), a(2) as usize);
            ctx.dmd.set_nvram(&bytes);
            "-".into()
        }
        "nx" => {
            // nx:<hexbytes> explicit image prefix
            let bytes = hexbytes(f[1]);
            ctx.dmd.set_nvram(&bytes);
            "-".into()
        }
        "mm" => {
            ctx.dmd.mouse_move(a(1) as u16, a(2) as u16);
            "-".into()
        }
        "md" => {
            ctx.dmd.mouse_down(a(1) as u8);
            "-".into()
        }
        "mu" => {
            ctx.dmd.mouse_up(a(1) as u8);
            "-".into()
        }
        "sv" => {
            let (_, bus) = ctx.dmd.verif_parts();
            bus.service();
            "-".into()
        }
        "gi" => {
            let (_, bus) = ctx.dmd.verif_parts();
            match bus.get_interrupts() {
                Some(v) => format!("i{:x}", v),
                None => "i-".into(),
            }
        }
        "qa" => {
            ctx.dmd.rs232_rx(a(1) as u8);
            "-".into()
        }
        "qb" => {
            ctx.dmd.keyboard_rx(a(1) as u8);
            "-".into()
        }
        "pa" => match ctx.dmd.rs232_tx() {
            Some(c) => format!("c{:x}", c),
            None => "c-".into(),
        },
        "pb" => match ctx.dmd.keyboard_tx() {
            Some(c) => format!("c{:x}", c),
            None => "c-".into(),
        },
        "do" => format!("v{:x}", ctx.dmd.duart_output()),
        "ds" => {
            let (_, bus) = ctx.dmd.verif_parts();
            duart_string(bus.verif_duart())
        }
        "fs" => final_state(&mut ctx.dmd).replace(' ', ";"),
        // annotation for the monitors: no effect
        "X" => "-".into(),
        // ---- whole-system ops (implementation only; used by the C01 monitor) ----
        // bt:<max>  step until the PSW priority level has been 0 on 200 consecutive samples (one per 10000 steps)
        "bt" => {
            let max = a(1);
            let mut n: u64 = 0;
            let mut quiet = 0;
            while n < max && quiet < 200 {
                for _ in 0..10000 {
                    step_clock(ctx);
                    ctx.dmd.step();
                }
                n += 10000;
                if (ctx.dmd.get_psw() >> 13) & 0xf == 0 {
                    quiet += 1;
                } else {
                    quiet = 0;
                }
            }
            if quiet >= 200 {
                format!("b{:x}", n)
            } else {
                "bx".into()
            }
        }
        // da / dk: drain the RS-232 / keyboard transmit queue
        "da" | "dk" | "dx" => {
            // dx: drain the RS-232 transmit queue like da; the monitor does not judge what it returns
            let mut s = String::from("t");
            let mut first = true;
            loop {
                let c = if f[0] != "dk" { ctx.dmd.rs232_tx() } else { ctx.dmd.keyboard_tx() };
                match c {
                    Some(c) => {
                        let _ = write!(s, "{}{:x}", if first { "" } else { "," }, c);
                        first = false;
                    }
                    None => break,
                }
            }
            s
        }
        "nsv" => {
            ctx.nvslot = ctx.dmd.get_nvram().to_vec();
            "-".into()
        }
        // nsp:<off>:<val> patch one byte of the saved image and re-establish the firmware's option checksum
        // (16-bit sum of the option bytes at offsets 2, 6, 10, ... 0x1ff6, kept at 0x1ffa / 0x1ffe)
        "nsp" => {
            let off = a(1) as usize;
            if off < ctx.nvslot.len() {
                ctx.nvslot[off] = a(2) as u8;
            }
            if ctx.nvslot.len() >= 0x2000 {
                let mut sum: u32 = 0;
                let mut i = 2;
                while i <= 0x1ff6 {
                    sum += u32::from(ctx.nvslot[i]);
                    i += 4;
                }
                ctx.nvslot[0x1ffe] = sum as u8;
                ctx.nvslot[0x1ffa] = (sum >> 8) as u8;
            }
            "-".into()
        }
        "nrs" => {
            let v = ctx.nvslot.clone();
            ctx.dmd.set_nvram(&v);
            "-".into()
        }
        _ => panic!("unknown op '{}'", tok),
    }
}

// ---- C API (global machine) -------------------------------------------------

fn capi_op(tok: &str) -> String {
    let f: Vec<&str> = tok.split(':').collect();
    let a = |i: usize| -> u64 { hx(f[i]) };
    // Out-parameters are pre-loaded with a sentinel so that "left untouched"
    // is observable.
    unsafe {
        match f[0] {
            "t" => {
                clock::set_ns(a(1));
                "-".into()
            }
            "init" => format!("{}", dmd_init(a(1) as u8)),
            "step" => format!("{}", dmd_step()),
            "loop" => format!("{}", dmd_step_loop(a(1) as usize)),
            "pc" => {
                let mut v: u32 = 0xdeadbeef;
                let rc = dmd_get_pc(&mut v);
                format!("{}:{:x}", rc, v)
            }
            "reg" => {
                let mut v: u32 = 0xdeadbeef;
                let rc = dmd_get_register(a(1) as u8, &mut v);
                format!("{}:{:x}", rc, v)
            }
            "rdw" => {
                let mut v: u32 = 0xdeadbeef;
                let rc = dmd_read_word(a(1) as u32, &mut v);
                format!("{}:{:x}", rc, v)
            }
            "rdb" => {
                let mut v: u8 = 0xa5;
                let rc = dmd_read_byte(a(1) as u32, &mut v);
                format!("{}:{:x}", rc, v)
            }
            "oport" => {
                let mut v: u8 = 0xa5;
                let rc = dmd_get_duart_output_port(&mut v);
                format!("{}:{:x}", rc, v)
            }
            "mm" => format!("{}", dmd_mouse_move(a(1) as u16, a(2) as u16)),
            "md" => format!("{}", dmd_mouse_down(a(1) as u8)),
            "mu" => format!("{}", dmd_mouse_up(a(1) as u8)),
            "qa" => format!("{}", dmd_rs232_rx(a(1) as u8)),
            "qb" => format!("{}", dmd_keyboard_rx(a(1) as u8)),
            "pa" => {
                let mut v: u8 = 0xa5;
                let rc = dmd_rs232_tx(&mut v);
                format!("{}:{:x}", rc, v)
            }
            "pb" => {
                let mut v: u8 = 0xa5;
                let rc = dmd_keyboard_tx(&mut v);
                format!("{}:{:x}", rc, v)
            }
            "dirty" => format!("{}", dmd_video_ram_dirty()),
            "vram" => {
                let p = dmd_video_ram();
                if p.is_null() {
                    "null".into()
                } else {
                    let fr = std::slice::from_raw_parts(p, 0x19000);
                    format!("f{}", digest(fr))
                }
            }
            "nvset" => {
                let bytes = lcg_bytes(a(1), 8192);
                let mut arr = [0u8; 8192];
                arr.copy_from_slice(&bytes);
                format!("{}", dmd_set_nvram(&arr))
            }
            "snap" => match verif_global_duart_snapshot() {
                Some(v) => {
                    let mut s = String::from("D");
                    for (i, x) in v.iter().enumerate() {
                        let _ = write!(s, "{}{}", if i == 0 { ":" } else { "," }, x);
                    }
                    s
                }
                None => "poisoned".into(),
            },
            "nvget" => {
                let mut arr = [0x5au8; 8192];
                let rc = dmd_get_nvram(&mut arr);
                format!("{}:{}", rc, digest(&arr))
            }
            _ => panic!("unknown capi op '{}'", tok),
        }
    }
}

/// Concurrent C-API case: `T <thread0 ops ; separated by ,> / <thread1> / <thread2>`
/// Each thread runs its ops in order, yielding pseudo-randomly; the output is
/// each thread's observation list.
fn capi_threads(spec: &[&str], seed: u64) -> String {
    use std::sync::{Arc, Barrier};
    let n = spec.len();
    let barrier = Arc::new(Barrier::new(n));
    let mut handles = Vec::new();
    for (ti, s) in spec.iter().enumerate() {
        let ops: Vec<String> = s.split(',').filter(|x| !x.is_empty()).map(|x| x.to_string()).collect();
        let b = barrier.clone();
        let mut x = seed.wrapping_add(ti as u64 * 0x9e3779b97f4a7c15) | 1;
        handles.push(std::thread::spawn(move || {
            let mut out: Vec<String> = Vec::new();
            b.wait();
            for op in ops.iter() {
                x ^= x << 13;
                x ^= x >> 7;
                x ^= x << 17;
                let spins = x % 4;
                for _ in 0..spins {
                    std::thread::yield_now();
                }
                out.push(capi_op(op));
            }
            out.join(",")
        }));
    }
    let mut res: Vec<String> = Vec::new();
    for h in handles {
        match h.join() {
            Ok(s) => res.push(s),
            Err(_) => res.push("p".into()),
        }
    }
    res.join(" / ")
}

fn main() {
    let args: Vec<String> = std::env::args().collect();
    if args.len() < 3 {
        eprintln!("usage: {} <cases> <out>", args[0]);
        std::process::exit(2);
    }
    std::panic::set_hook(Box::new(|_| {}));
    let inp = BufReader::new(std::fs::File::open(&args[1]).expect("open cases"));
    let mut out = BufWriter::new(std::fs::File::create(&args[2]).expect("create out"));
    for line in inp.lines() {
        let line = line.unwrap();
        let line = line.trim();
        if line.is_empty() || line.starts_with('#') {
            continue;
        }
        let toks: Vec<&str> = line.split_whitespace().collect();
        let id = toks[0];
        let mut obs: Vec<String> = Vec::with_capacity(toks.len());
        if toks.len() > 1 && toks[1] == "C" {
            // sequential C-API case on the process-global machine, freshly constructed for each case
            clock::set_ns(0);
            verif_global_fresh();
            for tok in &toks[2..] {
                let r = catch_unwind(AssertUnwindSafe(|| capi_op(tok)));
                match r {
                    Ok(s) => obs.push(s),
                    // the call unwound (the mutex is poisoned from here on); the following calls are still made:
                    // they must all report failure
                    Err(_) => obs.push("p".into()),
                }
            }
            writeln!(out, "{} {}", id, obs.join(" ")).unwrap();
            out.flush().unwrap();
            continue;
        }
        if toks.len() > 1 && toks[1] == "T" {
            // concurrent C-API case: T <seed> <thread specs separated by '/'>
            clock::set_ns(0);
            let seed = hx(toks[2]);
            let version = hx(toks[3]) as u8;
            verif_global_fresh();
            unsafe {
                dmd_init(version);
            }
            let rest = toks[4..].join("");
            let spec: Vec<&str> = rest.split('/').collect();
            // `T <seed> <version> <threads>`: the machine is reset first, on this thread, and a snapshot is taken
            // before the threads start and after they have all finished
            let pre = capi_op("snap");
            // a last segment that starts with '!' is not a thread: it runs on this thread after all threads have
            // finished (sequential calls that drain what the concurrent phase left)
            let (threads, tail): (Vec<&str>, Option<&str>) = match spec.last() {
                Some(l) if l.starts_with('!') => (spec[..spec.len() - 1].to_vec(), Some(&l[1..])),
                _ => (spec.clone(), None),
            };
            let mut s = capi_threads(&threads, seed);
            if let Some(t) = tail {
                let outs: Vec<String> = t.split(',').filter(|x| !x.is_empty()).map(capi_op).collect();
                s = format!("{} / {}", s, outs.join(","));
            }
            let snap = capi_op("snap");
            writeln!(out, "{} {} / {} / {}", id, pre, s, snap).unwrap();
            out.flush().unwrap();
            continue;
        }
        clock::set_ns(0);
        let mut ctx = Ctx {
            dmd: Dmd::new(),
            tick: 0,
            nvslot: Vec::new(),
        };
        let mut panicked = false;
        let start = if toks.len() > 1 && toks[1] == "S" { 2 } else { 1 };
        for tok in &toks[start..] {
            let r = catch_unwind(AssertUnwindSafe(|| exec_op(&mut ctx, tok)));
            match r {
                Ok(s) => obs.push(s),
                Err(_) => {
                    obs.push("p".into());
                    panicked = true;
                    break;
                }
            }
        }
        if panicked {
            writeln!(out, "{} {}", id, obs.join(" ")).unwrap();
            out.flush().unwrap();
        } else {
            let fs = final_state(&mut ctx.dmd);
            writeln!(out, "{} {} | {}", id, obs.join(" "), fs).unwrap();
            out.flush().unwrap();
        }
    }
    out.flush().unwrap();
}
