(* Executor for the model side of the correspondence check: reads the same case
   file as the Rust harness, runs the extracted Coq model, prints the same
   observation lines.  Z stays the extracted inductive type; this file only
   parses tokens and prints results. *)
open Model

(* ---- Z <-> int / hex ------------------------------------------------- *)
let rec pos_of_int (n : int) : positive =
  if n = 1 then XH else if n land 1 = 0 then XO (pos_of_int (n lsr 1)) else XI (pos_of_int (n lsr 1))
let z_of_int (n : int) : z = if n = 0 then Z0 else if n > 0 then Zpos (pos_of_int n) else Zneg (pos_of_int (-n))
let rec int_of_pos (p : positive) : int =
  match p with XH -> 1 | XO q -> 2 * int_of_pos q | XI q -> 2 * int_of_pos q + 1
let int_of_z (x : z) : int = match x with Z0 -> 0 | Zpos p -> int_of_pos p | Zneg p -> - (int_of_pos p)

(* hex strings may exceed 62 bits (usize values): parse into Z directly *)
let z_of_hex (s : string) : z =
  let acc = ref Z0 in
  String.iter (fun c ->
      let d = match c with
        | '0'..'9' -> Char.code c - 48
        | 'a'..'f' -> Char.code c - 87
        | 'A'..'F' -> Char.code c - 55
        | _ -> failwith ("bad hex " ^ s) in
      acc := Z.add (Z.mul !acc (z_of_int 16)) (z_of_int d)) s;
  !acc

let hex_of_z (x : z) : string =
  (* values printed are < 2^62 except never; use int *)
  Printf.sprintf "%x" (int_of_z x)

let rec nat_of_int (n : int) : nat = if n = 0 then O else S (nat_of_int (n - 1))

let hexbytes (s : string) : z list =
  let n = String.length s / 2 in
  List.init n (fun i -> z_of_int (int_of_string ("0x" ^ String.sub s (2 * i) 2)))

(* same generator as the harness: x <- x*6364136223846793005+1442695040888963407, byte = x>>56 *)
let rec hexstr_of_z (v : z) (acc : string) : string =
  if v = Z0 then (if acc = "" then "0" else acc)
  else let q = Z.div v (z_of_int 16) and r = Z.modulo v (z_of_int 16) in
    hexstr_of_z q (Printf.sprintf "%x" (int_of_z r) ^ acc)

let lcg_bytes (seed : z) (len : int) : z list =
  let x = ref (Int64.of_string ("0x" ^ hexstr_of_z seed "")) in
  List.init len (fun _ ->
      x := Int64.add (Int64.mul !x 6364136223846793005L) 1442695040888963407L;
      z_of_int (Int64.to_int (Int64.shift_right_logical !x 56)))

(* ---- digests ---------------------------------------------------------- *)
let fnv_off = 0xcbf29ce484222325L
let fnv_prime = 0x100000001b3L
let fnv_byte h b = Int64.mul (Int64.logxor h (Int64.of_int b)) fnv_prime

let digest_pairs (pairs : (int * int) list) : string =
  (* pairs: (offset, value) in increasing offset order *)
  let h = ref fnv_off and n = ref 0 in
  List.iter (fun (i, b) ->
      if b <> 0 then begin
        incr n;
        h := fnv_byte !h ((i lsr 16) land 255);
        h := fnv_byte !h ((i lsr 8) land 255);
        h := fnv_byte !h (i land 255);
        h := fnv_byte !h b
      end) pairs;
  Printf.sprintf "%x.%016Lx" !n !h

let digest_mem (m : mem) : string =
  let els = PositiveMap.elements m.mcells in
  digest_pairs (List.sort compare (List.map (fun (k, v) -> (int_of_pos k - 1, int_of_z v)) els))

let digest_list (l : z list) : string =
  digest_pairs (List.mapi (fun i v -> (i, int_of_z v)) l)

(* ---- printing ---------------------------------------------------------- *)
let bus_err = function
  | BInit -> "eI" | BRead -> "eR" | BWrite -> "eW" | BNoDevice -> "eN"
  | BRange -> "eG" | BPermission -> "eP" | BAlignment -> "eA"
let err_str = function
  | EBus b -> bus_err b
  | EExc IllegalOpcode -> "xI" | EExc InvalidDescriptor -> "xD"
  | EExc PrivilegedOpcode -> "xP" | EExc IntegerZeroDivide -> "xZ"

let mode_code = function
  | MNone -> 0 | MAbsolute -> 1 | MAbsoluteDeferred -> 2 | MByteDisp -> 3 | MByteDispDef -> 4
  | MHalfDisp -> 5 | MHalfDispDef -> 6 | MWordDisp -> 7 | MWordDispDef -> 8 | MApShort -> 9
  | MFpShort -> 10 | MByteImm -> 11 | MHalfImm -> 12 | MWordImm -> 13 | MPosLit -> 14
  | MNegLit -> 15 | MRegister -> 16 | MRegDeferred -> 17 | MExpanded -> 18
let dt_code = function
  | DNone -> 0 | DByte -> 1 | DHalf -> 2 | DWord -> 3 | DSByte -> 4 | DUHalf -> 5 | DUWord -> 6

let operand_str (o : operand) =
  Printf.sprintf ":%x,%x,%d,%x,%d,%d" (int_of_z o.osize) (mode_code o.omode)
    (match o.oreg with Some r -> int_of_z r | None -> -1) (int_of_z o.oemb)
    (dt_code o.otype) (match o.oetype with Some t -> dt_code t | None -> -1)

let ir_str (i : instr) =
  Printf.sprintf "%x:%x%s%s%s%s" (int_of_z i.iopcode) (int_of_z i.ilen)
    (operand_str i.op0) (operand_str i.op1) (operand_str i.op2) (operand_str i.op3)

let regs_list (r : regs) = [r.r0; r.r1; r.r2; r.r3; r.r4; r.r5; r.r6; r.r7; r.r8; r.r9; r.r10; r.r11; r.r12; r.r13; r.r14; r.r15]
let regs_str (r : regs) = "R:" ^ String.concat "," (List.map hex_of_z (regs_list r))

let port_snapshot (p : z port) : int list =
  let opt = function Some c -> int_of_z c | None -> -1 in
  let fifo = List.map int_of_z (fifo_contents p.rx_fifo) in
  [int_of_z p.mode0; int_of_z p.mode1; int_of_z p.mode_ptr; int_of_z p.stat; int_of_z p.conf;
   List.length fifo] @ fifo
  @ [opt p.rx_shift; opt p.tx_hold; opt p.tx_shift]
  @ [List.length p.rxq] @ List.map int_of_z p.rxq
  @ [List.length p.txq] @ List.map int_of_z p.txq
  @ [int_of_z p.char_delay; int_of_z p.next_tx; int_of_z p.next_rx]

let duart_str (d : duart) =
  "D:" ^ String.concat "," (List.map string_of_int
    (port_snapshot d.pa @ port_snapshot d.pb
     @ List.map int_of_z [d.acr; d.ipcr; d.inprt; d.outprt; d.isr; d.imr; d.ivec; d.next_vblank]))

let final_state (m : mach) =
  let b = m.mbus in
  Printf.sprintf "%s %s ram:%s rom:%s nv:%s vid:%02x%02x mouse:%x,%x dirty:%d"
    (regs_str m.mregs) (duart_str b.duart_) (digest_mem b.ram) (digest_mem b.rom)
    (digest_mem b.bbram) (int_of_z (mget b.vid Z0)) (int_of_z (mget b.vid (z_of_int 1)))
    (int_of_z b.mouse_.mx) (int_of_z b.mouse_.my) (if b.dirty then 1 else 0)

(* ---- ROM images -------------------------------------------------------- *)
let read_bin (path : string) : z list =
  let ic = open_in_bin path in
  let n = in_channel_length ic in
  let s = really_input_string ic n in
  close_in ic;
  List.init n (fun i -> z_of_int (Char.code s.[i]))

let romdir = ref "/verif/build/rom"
let lo1 = lazy (read_bin (!romdir ^ "/LO_ROM_V1.bin"))
let hi1 = lazy (read_bin (!romdir ^ "/HI_ROM_V1.bin"))
let lo2 = lazy (read_bin (!romdir ^ "/LO_ROM_V2.bin"))
let hi2 = lazy (read_bin (!romdir ^ "/HI_ROM_V2.bin"))

let do_op (o : op) (h : hstate) = run_op (Lazy.force lo1) (Lazy.force hi1) (Lazy.force lo2) (Lazy.force hi2) o h

(* ---- token -> op -------------------------------------------------------- *)
type tok = Op of op | Run of int | Snap | Final | Note | LoadX of z * z list | WriteN of z * int | RunN of int

let parse_tok (t : string) : tok =
  let f = Array.of_list (String.split_on_char ':' t) in
  let a i = z_of_hex f.(i) in
  match f.(0) with
  | "t" -> Op (OpTime (a 1))
  | "k" -> Op (OpTick (a 1))
  | "rb" -> Op (OpRb (a 1)) | "rh" -> Op (OpRh (a 1)) | "rw" -> Op (OpRw (a 1))
  | "oh" -> Op (OpOh (a 1)) | "ow" -> Op (OpOw (a 1))
  | "wb" -> Op (OpWb (a 1, a 2)) | "wh" -> Op (OpWh (a 1, a 2)) | "ww" -> Op (OpWw (a 1, a 2))
  | "ld" -> Op (OpLoad (a 1, hexbytes f.(2)))
  | "lx" -> LoadX (a 1, hexbytes f.(2))
  | "wn" -> WriteN (a 1, int_of_z (a 2))
  | "r" -> Op (OpSetReg (a 1, a 2))
  | "st" -> Op OpStep
  | "sx" -> Op OpStepX
  | "run" -> Run (int_of_z (a 1))
  | "rn" -> RunN (int_of_z (a 1))
  | "dc" -> Op OpDecode
  | "rs" -> Op (OpReset (a 1))
  | "gr" -> Op OpGetRegs
  | "g1" -> Op (OpGetReg (a 1))
  | "gp" -> Op OpGetPc
  | "db" -> Op (OpDmdRb (a 1))
  | "dw" -> Op (OpDmdRw (a 1))
  | "vr" -> Op OpVideo
  | "vd" -> Op OpDirty
  | "ng" -> Op OpNvGet
  | "ns" -> Op (OpNvSet (lcg_bytes (a 1) (int_of_z (a 2))))
  | "nx" -> Op (OpNvSet (hexbytes f.(1)))
  | "mm" -> Op (OpMouseMove (a 1, a 2))
  | "md" -> Op (OpMouseDown (a 1))
  | "mu" -> Op (OpMouseUp (a 1))
  | "sv" -> Op OpService
  | "gi" -> Op OpGetInt
  | "qa" -> Op (OpQa (a 1))
  | "qb" -> Op (OpQb (a 1))
  | "pa" -> Op OpPa
  | "pb" -> Op OpPb
  | "do" -> Op OpDuartOut
  | "ds" -> Snap
  | "fs" -> Final
  | "X" -> Note
  | _ -> failwith ("unknown op " ^ t)

let obs_str (tk : string) (o : obs) : string =
  match o with
  | ObNone -> "-"
  | ObOk -> "ok"
  | ObVal v -> "v" ^ hex_of_z v
  | ObErr e -> err_str e
  | ObPanic -> "p"
  | ObFuel -> "FUEL"
  | ObRegs r -> regs_str r
  | ObIr i -> "ok:" ^ ir_str i
  | ObBytes l ->
    let pre = if tk = "vr" then "f" else "n" in
    Printf.sprintf "%s%x.%s" pre (List.length l) (digest_list l)
  | ObOpt o ->
    let c = String.get tk 0 in
    if c = 'g' then (match o with Some v -> "i" ^ hex_of_z v | None -> "i-")
    else if c = 'd' then (match o with Some v -> "v" ^ hex_of_z v | None -> "n")
    else (match o with Some v -> "c" ^ hex_of_z v | None -> "c-")
  | ObBool b -> if b then "d1" else "d0"
  | ObPc (a, b, c) -> Printf.sprintf "v%s,%s,%s" (hex_of_z a) (hex_of_z b) (hex_of_z c)

(* ---- C API --------------------------------------------------------------- *)
let gstate : gstate ref = ref (GLive (mach_new Z0))
let gnow : z ref = ref Z0

let capi_tok (t : string) : string =
  let f = Array.of_list (String.split_on_char ':' t) in
  let a i = z_of_hex f.(i) in
  let call c =
    let (g, r) = capi_step (Lazy.force lo1) (Lazy.force hi1) (Lazy.force lo2) (Lazy.force hi2) !gnow c !gstate in
    gstate := g; r in
  let rc r = if int_of_z r.crc = 99 then "p" else string_of_int (int_of_z r.crc) in
  let withval sentinel r = match r.cout_ with
    | CoVal v -> Printf.sprintf "%s:%s" (rc r) (hex_of_z v)
    | _ -> Printf.sprintf "%s:%s" (rc r) sentinel in
  match f.(0) with
  | "t" -> gnow := a 1; "-"
  | "init" -> rc (call (CInit (a 1)))
  | "step" -> rc (call CStep)
  | "loop" -> rc (call (CStepLoop (nat_of_int (int_of_z (a 1)))))
  | "pc" -> withval "deadbeef" (call CGetPc)
  | "reg" -> withval "deadbeef" (call (CGetReg (a 1)))
  | "rdw" -> withval "deadbeef" (call (CReadWord (a 1)))
  | "rdb" -> withval "a5" (call (CReadByte (a 1)))
  | "oport" -> withval "a5" (call CDuartOut)
  | "mm" -> rc (call (CMouseMove (a 1, a 2)))
  | "md" -> rc (call (CMouseDown (a 1)))
  | "mu" -> rc (call (CMouseUp (a 1)))
  | "qa" -> rc (call (CRs232Rx (a 1)))
  | "qb" -> rc (call (CKeyboardRx (a 1)))
  | "pa" -> withval "a5" (call CRs232Tx)
  | "pb" -> withval "a5" (call CKeyboardTx)
  | "dirty" -> rc (call CVideoDirty)
  | "vram" -> (let r = call CVideoRam in
               match r.cout_ with CoBytes l -> "f" ^ digest_list l | _ -> "null")
  | "snap" -> (match !gstate with GLive m -> duart_str m.mbus.duart_ | GPoisoned -> "poisoned")
  | "nvset" -> rc (call (CSetNvram (lcg_bytes (a 1) 8192)))
  | "nvget" -> (let r = call CGetNvram in
                match r.cout_ with
                | CoBytes l -> Printf.sprintf "%s:%s" (rc r) (digest_list l)
                | _ -> Printf.sprintf "%s:%s" (rc r) (digest_list (List.init 8192 (fun _ -> z_of_int 0x5a))))
  | _ -> failwith ("unknown capi op " ^ t)

(* ---- main ------------------------------------------------------------------ *)
let run_case (toks : string list) : string =
  let buf = Buffer.create 256 in
  let h = ref (Some h_new) in
  let first = ref true in
  let emit s = if not !first then Buffer.add_char buf ' '; first := false; Buffer.add_string buf s in
  (try
     List.iter (fun t ->
         match !h with
         | None -> raise Exit
         | Some hs ->
           (match parse_tok t with
            | Op o ->
              let (h', ob) = do_op o hs in
              h := h'; emit (obs_str (List.hd (String.split_on_char ':' t)) ob)
            | Run n ->
              let cur = ref (Some hs) and res = ref "ok" in
              (try
                 for _ = 1 to n do
                   match !cur with
                   | Some c ->
                     let (h', ob) = do_op OpStepX c in
                     cur := h';
                     (match ob with ObOk -> () | _ -> res := obs_str "sx" ob; raise Exit)
                   | None -> raise Exit
                 done
               with Exit -> ());
              h := !cur; emit !res
            | LoadX (addr, bytes) ->
              (* Mem::load stores byte by byte and panics at the first byte outside the vector: after the panic the
                 bytes that fit are in memory (a load into the DUART or the mouse panics before storing anything) *)
              let (h', ob) = do_op (OpLoad (addr, bytes)) hs in
              (match ob with
               | ObPanic ->
                 let ai = int_of_z addr in
                 let room =
                   if ai < 0x20000 then 0x20000 - ai
                   else if ai >= 0x500000 && ai < 0x500002 then 0x500002 - ai
                   else if ai >= 0x600000 && ai < 0x602000 then 0x602000 - ai
                   else if ai >= 0x700000 && ai < 0x800000 then 0x800000 - ai
                   else 0 in
                 let rec take n l = if n <= 0 then [] else (match l with [] -> [] | x :: t -> x :: take (n - 1) t) in
                 if room > 0 then begin
                   let (h2, ob2) = do_op (OpLoad (addr, take room bytes)) hs in
                   (match ob2 with ObOk -> h := h2 | _ -> h := Some hs)
                 end else h := Some hs;
                 emit "p"
               | _ -> h := h'; emit (obs_str "ld" ob))
            | RunN n ->
              (* Dmd::run(n) as the harness calls it: the clock advances by one tick, then n instructions run *)
              let tick = hs.htick in
              let cur = ref (Some hs) and res = ref "ok" in
              (try
                 for i = 1 to n do
                   match !cur with
                   | Some c ->
                     let c = if i = 2 then { c with htick = Z0 } else c in
                     let (h', ob) = do_op OpStepX c in
                     cur := h';
                     (match ob with ObOk -> () | _ -> res := obs_str "sx" ob; raise Exit)
                   | None -> raise Exit
                 done
               with Exit -> ());
              (match !cur with
               | Some c ->
                 (* Dmd::run(0) after the tick: the clock has advanced, nothing ran *)
                 let c = if n = 0 then { c with hnow = Z.add c.hnow tick } else c in
                 h := Some { c with htick = tick }
               | None -> h := None);
              emit !res
            | WriteN (addr, n) ->
              let cur = ref (Some hs) and res = ref "ok" in
              (try
                 for i = 0 to n - 1 do
                   match !cur with
                   | Some c ->
                     let (h', ob) = do_op (OpWb (addr, z_of_int (i land 255))) c in
                     cur := h';
                     (match ob with ObOk -> () | _ -> res := obs_str "wb" ob; raise Exit)
                   | None -> raise Exit
                 done
               with Exit -> ());
              h := !cur; emit !res
            | Note -> emit "-"
            | Snap -> emit (duart_str hs.hm.mbus.duart_)
            | Final -> emit (String.map (fun c -> if c = ' ' then ';' else c) (final_state hs.hm)))) toks
   with Exit -> ());
  (match !h with
   | Some hs -> Buffer.add_string buf " | "; Buffer.add_string buf (final_state hs.hm)
   | None -> ());
  Buffer.contents buf

let () =
  if Array.length Sys.argv < 3 then (prerr_endline "usage: driver <cases> <out> [romdir]"; exit 2);
  if Array.length Sys.argv > 3 then romdir := Sys.argv.(3);
  let ic = open_in Sys.argv.(1) and oc = open_out Sys.argv.(2) in
  (try
     while true do
       let line = String.trim (input_line ic) in
       if line <> "" && line.[0] <> '#' then begin
         let toks = List.filter (fun s -> s <> "") (String.split_on_char ' ' line) in
         match toks with
         | id :: "C" :: rest ->
           gnow := Z0;
           (* every call list starts on a fresh machine with a usable mutex (hook verif_global_fresh) *)
           gstate := GLive (mach_new Z0);
           let out = List.map capi_tok rest in
           Printf.fprintf oc "%s %s\n" id (String.concat " " out)
         | id :: "S" :: _ ->
           (* whole-system monitor runs are executed on the implementation only *)
           Printf.fprintf oc "%s S\n" id
         | id :: "T" :: _ ->
           (* concurrent cases are judged by the linearisation checker, not replayed here *)
           Printf.fprintf oc "%s T\n" id
         | id :: rest -> Printf.fprintf oc "%s %s\n" id (run_case rest)
         | [] -> ()
       end
     done
   with End_of_file -> ());
  close_out oc
